// Package c09: ordered collections behave as their abstract models (property C09).
//
// An op line is a whole HISTORY; after every step every query method is printed.
//
//   sh   <step>*     one hash.StringHash `cur` (plus `old`, the source of the last copy/merge)
//        (put K V) (delete K) (get K) (cia K V) (copy) (merge (K V)*) (putall (K V)*) (freeze) (swap) (empty)
//        (equals) (views)
//   hash <step>*     a pool of immutable types.Hash values (and *MutableHashValue), addressed by position
//        (wrap P*) (parse P*) (parsea P*) (build P*) (put I k v) (merge I J) (delete I k) (deleteAll I (k*))
//        (get I k) (get4 I xSTR) (mnew) (mput I k v) (mputall I J)            P ::= (k v)
//        (slice I i j) (select I (k*)) (reject I (k*)) (sort I) (eachSlice I n) (mapKeys I k)
//   arr  <step>*     a pool of immutable types.Array values
//        (lit v*) (add I v) (addAll I J) (delete I v) (deleteAll I J) (slice I i j) (unique I) (at I i)
//        (sort I) (eachSlice I n) (flatten I) (find I v) (len I)
//   @ehash (implementation only: no model side) = hash, plus
//        (gomapv P*) (gomapi P*) (gomaps P*) (fromArr P*) (fromFlat P*) (wrap2 P*) (shv P*) (indexed v*) (parsetop P) (parsemix P*)
//        (add I k v) (adda I k v) (addAll I J) (addAllArr I P*) (addAllFlat I P*) (mergeom I J) (entries I) (unique I);
//        delete / deleteAll / slice / select / reject / sort / mapKeys are also run on a mutable hash
//   @earr  (implementation only) = arr, plus (entry k v) (nest I*) (ints INT*) (strs xHEX*)
//
//   K ::= xHEX   V ::= INT      value k, v ::= INT | xHEX | (a value*)
//
// The direct predicate compares every observation with a small reference ordered map written from the
// property text (refMap below): insertion ordered, unique keys, put replaces in place or appends, delete
// removes exactly the key.
package c09

import (
	"fmt"
	"math/rand"
	"sort"
	"strconv"
	"strings"

	"verif/harness/core"
	"verif/harness/sx"

	"github.com/lyraproj/pcore/hash"
	"github.com/lyraproj/pcore/px"
	"github.com/lyraproj/pcore/types"
)

func init() {
	core.Register(&core.Prop{
		ID:   "C09",
		Rule: "distinct op lines (one line = one history); non-trivial = at least one step changed the content of a collection (new key, replaced value, removed key/element, merge, append)",
		Gen:  gen,
		Exec: exec,
	})
}

// ---- the reference ordered map (written from the property text) -----------------------------------------

type refMap struct {
	keys   []string
	vals   map[string]string
	frozen bool
}

func newRef() *refMap { return &refMap{vals: map[string]string{}} }

func (m *refMap) copy() *refMap {
	c := newRef()
	c.keys = append(c.keys, m.keys...)
	for k, v := range m.vals {
		c.vals[k] = v
	}
	return c
}

func (m *refMap) has(k string) bool { _, ok := m.vals[k]; return ok }

// put replaces in place or appends; reports whether the content changed
func (m *refMap) put(k, v string) bool {
	if old, ok := m.vals[k]; ok {
		m.vals[k] = v
		return old != v
	}
	m.keys = append(m.keys, k)
	m.vals[k] = v
	return true
}

func (m *refMap) del(k string) bool {
	if !m.has(k) {
		return false
	}
	delete(m.vals, k)
	nk := make([]string, 0, len(m.keys))
	for _, x := range m.keys {
		if x != k {
			nk = append(nk, x)
		}
	}
	m.keys = nk
	return true
}

func (m *refMap) get(k string) string {
	if v, ok := m.vals[k]; ok {
		return v
	}
	return "_"
}

func (m *refMap) equal(o *refMap) bool {
	if len(m.keys) != len(o.keys) {
		return false
	}
	for i, k := range m.keys {
		if o.keys[i] != k || o.vals[k] != m.vals[k] {
			return false
		}
	}
	return true
}

// ---- shared printing ------------------------------------------------------------------------------------------

type pair struct{ k, v string }

// obs is one observation of a map-like collection, in the canonical format shared with the Lean driver
type obs struct {
	each   []pair   // iteration order (EachPair / Each)
	keys   []string // Keys()
	vals   []string // Values()
	n      int      // Len()
	at     []string // At(0..n)   (Hash only)
	get    []string // Get over the universe
	inc    []bool   // Includes/IncludesKey over the universe
	get4   []string // Get4 over the string keys of the universe (Hash only)
	frozen string   // "t"/"f" (StringHash only)
}

func (o *obs) String() string {
	var b strings.Builder
	b.WriteString("E{")
	for i, p := range o.each {
		if i > 0 {
			b.WriteByte(' ')
		}
		b.WriteString(p.k + "=" + p.v)
	}
	b.WriteString("} K[" + strings.Join(o.keys, " ") + "] V[" + strings.Join(o.vals, " ") + "] N" + strconv.Itoa(o.n))
	if o.at != nil {
		b.WriteString(" A[" + strings.Join(o.at, " ") + "]")
	}
	if o.frozen != "" {
		b.WriteString(" F" + o.frozen)
	}
	b.WriteString(" G[" + strings.Join(o.get, " ") + "] I[")
	for _, x := range o.inc {
		b.WriteString(sx.B(x))
	}
	b.WriteString("]")
	if o.get4 != nil {
		b.WriteString(" S[" + strings.Join(o.get4, " ") + "]")
	}
	return b.String()
}

// refObs is what the reference map answers to the same queries
func refObs(m *refMap, uni []string, isHash bool, sh bool) *obs {
	o := &obs{n: len(m.keys), keys: append([]string{}, m.keys...)}
	for _, k := range m.keys {
		o.each = append(o.each, pair{k, m.vals[k]})
		o.vals = append(o.vals, m.vals[k])
	}
	if isHash {
		o.at = []string{}
		for _, k := range m.keys {
			o.at = append(o.at, k+"="+m.vals[k])
		}
		o.at = append(o.at, "_")
		o.get4 = []string{}
	}
	if sh {
		o.frozen = sx.B(m.frozen)
	}
	for _, k := range uni {
		o.get = append(o.get, m.get(k))
		o.inc = append(o.inc, m.has(k))
		if isHash && strings.HasPrefix(k, "x") {
			o.get4 = append(o.get4, m.get(k))
		}
	}
	return o
}

func safely(f func()) (err interface{}) {
	defer func() { err = recover() }()
	f()
	return nil
}

func isFrozenErr(e interface{}) bool {
	if e == nil {
		return false
	}
	if err, ok := e.(error); ok {
		return strings.Contains(err.Error(), "frozen StringHash")
	}
	return strings.Contains(fmt.Sprintf("%T", e), "frozenError")
}

type failure struct{ class, detail string }

type failures []failure

func (fs *failures) add(class, format string, a ...interface{}) {
	*fs = append(*fs, failure{class, fmt.Sprintf(format, a...)})
}

// pick: the first failure that is not a consequence of a literal with a repeated key, else the first one
func (fs failures) pick() *failure {
	for i := range fs {
		if fs[i].class != "literal-dup-keys" {
			return &fs[i]
		}
	}
	if len(fs) > 0 {
		return &fs[0]
	}
	return nil
}

// ==== StringHash ==================================================================================================

func iv(v interface{}) string {
	if v == nil {
		return "_"
	}
	if i, ok := v.(int64); ok {
		return strconv.FormatInt(i, 10)
	}
	return "?"
}

func shObs(h hash.StringHash, uni []string) (o *obs, fault interface{}) {
	o = &obs{}
	fault = safely(func() {
		h.EachPair(func(k string, v interface{}) { o.each = append(o.each, pair{sx.Str(k).Atom, iv(v)}) })
		for _, k := range h.Keys() {
			o.keys = append(o.keys, sx.Str(k).Atom)
		}
		for _, v := range h.Values() {
			o.vals = append(o.vals, iv(v))
		}
		o.n = h.Len()
		o.frozen = sx.B(h.Frozen())
	})
	for _, k := range uni {
		ks, _ := sx.A(k).AsBytes()
		g := "fault"
		inc := false
		if e := safely(func() {
			v, ok := h.Get(string(ks))
			if ok {
				g = iv(v)
				if v == nil {
					g = "nil"
				}
			} else {
				g = "_"
			}
			inc = h.Includes(string(ks))
		}); e != nil && fault == nil {
			fault = e
		}
		o.get = append(o.get, g)
		o.inc = append(o.inc, inc)
	}
	return
}

func pairsOf(args []sx.Sexp) ([]pair, bool) {
	ps := []pair{}
	for _, a := range args {
		if !a.IsList || len(a.List) != 2 {
			return nil, false
		}
		k, okk := valStr(a.List[0])
		v, okv := valStr(a.List[1])
		if !okk || !okv {
			return nil, false
		}
		ps = append(ps, pair{k, v})
	}
	return ps, true
}

func isKeyAtom(s sx.Sexp) bool {
	if s.IsList {
		return false
	}
	b, err := s.AsBytes()
	return err == nil && sx.Bytes(b).Atom == s.Atom // canonical (lower-case) hex only
}

func isIntAtom(s sx.Sexp) bool {
	if s.IsList {
		return false
	}
	_, err := s.AsInt()
	return err == nil
}

// shUniverse: every key mentioned in the history, in order of first appearance
func shUniverse(steps []sx.Sexp) ([]string, bool) {
	uni := []string{}
	seen := map[string]bool{}
	add := func(k string) {
		if !seen[k] {
			seen[k] = true
			uni = append(uni, k)
		}
	}
	for _, st := range steps {
		a := st.Args()
		switch st.Tag() {
		case "put", "cia":
			if len(a) != 2 || !isKeyAtom(a[0]) || !isIntAtom(a[1]) {
				return nil, false
			}
			add(a[0].Atom)
		case "delete", "get":
			if len(a) != 1 || !isKeyAtom(a[0]) {
				return nil, false
			}
			add(a[0].Atom)
		case "merge", "putall":
			for _, p := range a {
				if !p.IsList || len(p.List) != 2 || !isKeyAtom(p.List[0]) || !isIntAtom(p.List[1]) {
					return nil, false
				}
				add(p.List[0].Atom)
			}
		case "copy", "freeze", "swap", "empty", "equals", "views":
			if len(a) != 0 {
				return nil, false
			}
		default:
			return nil, false
		}
	}
	return uni, true
}

func buildSH(ps []sx.Sexp) (hash.StringHash, *refMap) {
	h := hash.NewStringHash(len(ps))
	r := newRef()
	for _, p := range ps {
		h.Put(p.List[0].MustStr(), p.List[1].MustInt())
		r.put(p.List[0].Atom, p.List[1].Atom)
	}
	return h, r
}

func execSH(steps []sx.Sexp) core.Result {
	uni, ok := shUniverse(steps)
	if !ok {
		return core.Result{Out: "bad-op", Pred: "n/a"}
	}
	cur := hash.NewStringHash(4)
	ref := newRef()
	var old hash.StringHash
	var oldRef *refMap
	var out []string
	var fs failures
	tags := map[string]bool{}
	changed := false
	deleted := false

	for si, st := range steps {
		a := st.Args()
		op := st.Tag()
		tags["sh:"+op] = true
		res := op
		before := ref.copy()
		before.frozen = ref.frozen
		wouldMutate := false
		rejected := false
		var fault interface{}
		run := func(f func()) {
			if e := safely(f); e != nil {
				if isFrozenErr(e) {
					rejected = true
					res = op + "=rejected"
				} else {
					fault = e
					res = op + "=fault"
				}
			}
		}
		switch op {
		case "put":
			k, v := a[0].MustStr(), a[1].MustInt()
			exp := op + "=" + ref.get(a[0].Atom) + "," + sx.B(ref.has(a[0].Atom))
			wouldMutate = !ref.has(a[0].Atom) || ref.get(a[0].Atom) != a[1].Atom
			run(func() {
				o, rep := cur.Put(k, v)
				res = op + "=" + iv(o) + "," + sx.B(rep)
			})
			if !ref.frozen {
				if ref.put(a[0].Atom, a[1].Atom) {
					changed = true
				}
				if fault == nil && res != exp {
					fs.add("sh-put-result", "step %d: Put returned %s, reference %s", si, res, exp)
				}
			}
		case "delete":
			k := a[0].MustStr()
			exp := op + "=" + ref.get(a[0].Atom)
			wouldMutate = ref.has(a[0].Atom)
			run(func() { res = op + "=" + iv(cur.Delete(k)) })
			if !ref.frozen {
				if ref.del(a[0].Atom) {
					changed = true
					deleted = true
				}
				if fault == nil && res != exp {
					fs.add("sh-delete-result", "step %d: Delete returned %s, reference %s", si, res, exp)
				}
			}
		case "get":
			k := a[0].MustStr()
			run(func() {
				v, ok := cur.Get(k)
				res = op + "=" + iv(v) + "," + sx.B(ok) + "," + iv(cur.GetOrDefault(k, int64(-1)))
			})
		case "cia":
			k, v := a[0].MustStr(), a[1].MustInt()
			wouldMutate = !ref.has(a[0].Atom)
			exp := op + "=" + a[1].Atom
			if ref.has(a[0].Atom) {
				exp = op + "=" + ref.get(a[0].Atom)
			}
			run(func() { res = op + "=" + iv(cur.ComputeIfAbsent(k, func() interface{} { return v })) })
			if !ref.frozen || !wouldMutate {
				if !ref.has(a[0].Atom) {
					ref.put(a[0].Atom, a[1].Atom)
					changed = true
				}
				if fault == nil && res != exp {
					fs.add("sh-cia-result", "step %d: ComputeIfAbsent returned %s, reference %s", si, res, exp)
				}
			}
		case "copy":
			run(func() {
				c := cur.Copy()
				old, oldRef = cur, ref
				cur = c
				ref = oldRef.copy()
			})
		case "merge":
			oh, or := buildSH(a)
			run(func() {
				m := cur.Merge(oh)
				old, oldRef = cur, ref
				cur = m
				ref = oldRef.copy()
				for _, k := range or.keys {
					if ref.put(k, or.vals[k]) {
						changed = true
					}
				}
			})
		case "putall":
			oh, or := buildSH(a)
			for _, k := range or.keys {
				if !ref.has(k) || ref.get(k) != or.vals[k] {
					wouldMutate = true
				}
			}
			run(func() { cur.PutAll(oh); res = op + "=ok" })
			if !ref.frozen {
				for _, k := range or.keys {
					if ref.put(k, or.vals[k]) {
						changed = true
					}
				}
			}
		case "freeze":
			run(func() { cur.Freeze() })
			ref.frozen = true
		case "swap":
			if old == nil {
				res = "skip"
			} else {
				cur, old = old, cur
				ref, oldRef = oldRef, ref
			}
		case "empty":
			old, oldRef = cur, ref
			cur = hash.EmptyStringHash
			ref = newRef()
			ref.frozen = true
		case "equals":
			if old == nil {
				res = "skip"
				break
			}
			run(func() { res = op + "=" + sx.B(cur.Equals(old, nil)) + "," + sx.B(old.Equals(cur, nil)) })
			same := len(ref.keys) == len(oldRef.keys)
			for _, k := range ref.keys {
				same = same && oldRef.has(k) && oldRef.vals[k] == ref.vals[k]
			}
			if exp := op + "=" + sx.B(same) + "," + sx.B(same); fault == nil && res != exp {
				fs.add("sh-equals", "step %d: Equals answered %s, reference %s", si, res, exp)
			}
		case "views":
			run(func() {
				ks, vs := []string{}, []string{}
				cur.EachKey(func(k string) { ks = append(ks, sx.Str(k).Atom) })
				cur.EachValue(func(v interface{}) { vs = append(vs, iv(v)) })
				all := cur.AllPair(func(_ string, v interface{}) bool { return v != int64(1) })
				any := cur.AnyPair(func(_ string, v interface{}) bool { return v == int64(1) })
				res = op + "=K[" + strings.Join(ks, " ") + "] V[" + strings.Join(vs, " ") + "] " + sx.B(cur.Empty()) + sx.B(all) + sx.B(any)
			})
			vs := []string{}
			all, any := true, false
			for _, k := range ref.keys {
				vs = append(vs, ref.vals[k])
				all = all && ref.vals[k] != "1"
				any = any || ref.vals[k] == "1"
			}
			exp := op + "=K[" + strings.Join(ref.keys, " ") + "] V[" + strings.Join(vs, " ") + "] " + sx.B(len(ref.keys) == 0) + sx.B(all) + sx.B(any)
			if fault == nil && res != exp {
				fs.add("sh-views-differ", "step %d: %s, reference %s", si, res, exp)
			}
		}
		o, of := shObs(cur, uni)
		if fault == nil {
			fault = of
		}
		out = append(out, res+" "+o.String())
		if fault != nil {
			cl := "sh-fault"
			if deleted {
				cl = "sh-unreachable-after-delete"
			}
			fs.add(cl, "step %d %s: runtime fault %v", si, st, fault)
			break // the reference cannot follow a faulted implementation any further
		}
		// the property, directly
		if before.frozen && (op == "put" || op == "delete" || op == "cia" || op == "putall") {
			if !(before.equal(ref) && refObs(before, uni, false, true).String() == o.String()) {
				fs.add("frozen-mutated", "step %d %s: a frozen StringHash changed", si, st)
			} else if wouldMutate && !rejected {
				fs.add("frozen-not-rejected", "step %d %s: mutation of a frozen StringHash was not rejected", si, st)
			}
			continue
		}
		if rejected {
			fs.add("sh-rejected-unfrozen", "step %d %s: rejected although not frozen", si, st)
			continue
		}
		exp := refObs(ref, uni, false, true)
		if exp.String() != o.String() {
			fs.add(shClass(exp, o, deleted), "step %d %s: impl %s reference %s", si, st, o, exp)
		}
	}
	tail := "none"
	if old != nil {
		o, of := shObs(old, uni)
		tail = o.String()
		if of != nil {
			fs.add("sh-fault", "old: runtime fault %v", of)
		} else if len(fs) == 0 {
			if exp := refObs(oldRef, uni, false, true); exp.String() != tail {
				fs.add("sh-copy-shares-state", "the source of a copy/merge changed: impl %s reference %s", tail, exp)
			}
		}
	}
	r := core.Result{Out: strings.Join(out, " | ") + " || old=" + tail, Pred: "ok", NonTrivial: changed}
	for t := range tags {
		r.Tags = append(r.Tags, t)
	}
	if f := fs.pick(); f != nil {
		r.Pred = "FAIL " + f.class + " " + strings.Replace(f.detail, "\t", " ", -1)
	}
	return r
}

func sameStrings(a, b []string) bool {
	if len(a) != len(b) {
		return false
	}
	for i := range a {
		if a[i] != b[i] {
			return false
		}
	}
	return true
}

func samePairs(a, b []pair) bool {
	if len(a) != len(b) {
		return false
	}
	for i := range a {
		if a[i] != b[i] {
			return false
		}
	}
	return true
}

func hasDup(keys []string) bool {
	seen := map[string]bool{}
	for _, k := range keys {
		if seen[k] {
			return true
		}
		seen[k] = true
	}
	return false
}

func shClass(exp, got *obs, deleted bool) string {
	if hasDup(got.keys) {
		return "sh-dup-keys"
	}
	if !samePairs(exp.each, got.each) {
		return "sh-entries"
	}
	if !sameStrings(exp.keys, got.keys) || !sameStrings(exp.vals, got.vals) || exp.n != got.n {
		return "sh-views-differ"
	}
	if exp.frozen != got.frozen {
		return "sh-frozen-flag"
	}
	for i := range exp.get {
		if exp.get[i] != got.get[i] || exp.inc[i] != got.inc[i] {
			if exp.inc[i] && deleted {
				return "sh-unreachable-after-delete"
			}
			if exp.inc[i] {
				return "sh-lookup-misses"
			}
			return "sh-lookup-ghost"
		}
	}
	return "sh-differs"
}

// ==== values =====================================================================================================

// valStr validates a value s-expression and returns its canonical text (the key the reference map uses)
// specialVal: the "falsy looking" values — `u` undef (its text is `_`, what every query prints for undef), `bt` / `bf` the
// booleans, `d` default, `(h)` the empty hash (the text `_` itself is read back as undef: valFromText)
func specialVal(e sx.Sexp) (string, px.Value, bool) {
	if e.IsList {
		if len(e.List) == 1 && e.Tag() == "h" {
			return "(h)", types.WrapHash(nil), true
		}
		return "", nil, false
	}
	switch e.Atom {
	case "u", "_":
		return "_", px.Undef, true
	case "bt":
		return "bt", types.BooleanTrue, true
	case "bf":
		return "bf", types.BooleanFalse, true
	case "d":
		return "d", types.WrapDefault(), true
	}
	return "", nil, false
}

func valStr(e sx.Sexp) (string, bool) {
	if t, _, ok := specialVal(e); ok && e.Atom != "_" {
		return t, true
	}
	if !e.IsList {
		if isIntAtom(e) {
			return strconv.FormatInt(e.MustInt(), 10), true
		}
		if isKeyAtom(e) {
			return e.Atom, true
		}
		return "", false
	}
	if e.Tag() != "a" {
		return "", false
	}
	parts := []string{"a"}
	for _, x := range e.Args() {
		s, ok := valStr(x)
		if !ok {
			return "", false
		}
		parts = append(parts, s)
	}
	return "(" + strings.Join(parts, " ") + ")", true
}

func valOf(e sx.Sexp) px.Value {
	if _, v, ok := specialVal(e); ok {
		return v
	}
	if !e.IsList {
		if isIntAtom(e) {
			return types.WrapInteger(e.MustInt())
		}
		return types.WrapString(e.MustStr())
	}
	vs := []px.Value{}
	for _, x := range e.Args() {
		vs = append(vs, valOf(x))
	}
	return types.WrapValues(vs)
}

// show prints a live value in the canonical syntax
func show(v px.Value) string {
	switch v := v.(type) {
	case nil:
		return "nil"
	case px.Integer:
		return strconv.FormatInt(v.Int(), 10)
	case px.StringValue:
		return sx.Str(v.String()).Atom
	case *types.HashEntry:
		return show(v.Key()) + "=" + show(v.Value())
	case px.Boolean:
		if v.Bool() {
			return "bt"
		}
		return "bf"
	case *types.DefaultValue:
		return "d"
	case *types.Hash:
		if v.Len() == 0 {
			return "(h)"
		}
	case *types.Array:
		parts := []string{"a"}
		v.Each(func(e px.Value) { parts = append(parts, show(e)) })
		return "(" + strings.Join(parts, " ") + ")"
	}
	if v == px.Undef {
		return "_"
	}
	return "?" + v.String()
}

// text renders a value as Puppet literal text for types.Parse
func text(e sx.Sexp) string {
	if t, _, ok := specialVal(e); ok {
		return map[string]string{"_": "undef", "bt": "true", "bf": "false", "d": "default", "(h)": "{}"}[t]
	}
	if !e.IsList {
		if isIntAtom(e) {
			return e.Atom
		}
		return "'" + e.MustStr() + "'"
	}
	parts := []string{}
	for _, x := range e.Args() {
		parts = append(parts, text(x))
	}
	return "[" + strings.Join(parts, ", ") + "]"
}

func plainText(e sx.Sexp) bool {
	if _, _, ok := specialVal(e); ok {
		return e.Atom != "_"
	}
	if !e.IsList {
		if isIntAtom(e) {
			return true
		}
		for _, c := range []byte(e.MustStr()) {
			if !(c >= 'a' && c <= 'z' || c >= '0' && c <= '9') {
				return false
			}
		}
		return true
	}
	for _, x := range e.Args() {
		if !plainText(x) {
			return false
		}
	}
	return true
}

// ==== Hash ==============================================================================================================

type hslot struct {
	h       px.OrderedMap
	mutable *types.MutableHashValue
	ref     *refMap
	tainted bool   // built from a literal with a repeated key, or derived from such a hash
	last    string // last observation (immutability: must never change for an immutable hash)
}

func hashObs(h px.OrderedMap, uni []sx.Sexp) (o *obs, fault interface{}) {
	o = &obs{at: []string{}, get4: []string{}}
	fault = safely(func() {
		h.EachPair(func(k, v px.Value) { o.each = append(o.each, pair{show(k), show(v)}) })
		h.Keys().Each(func(k px.Value) { o.keys = append(o.keys, show(k)) })
		h.Values().Each(func(v px.Value) { o.vals = append(o.vals, show(v)) })
		o.n = h.Len()
		for i := 0; i <= o.n; i++ {
			o.at = append(o.at, show(h.At(i)))
		}
	})
	for _, k := range uni {
		g, g4 := "fault", "fault"
		inc := false
		if e := safely(func() {
			kv := valOf(k)
			if v, ok := h.Get(kv); ok {
				g = show(v)
			} else {
				g = "_"
			}
			inc = h.IncludesKey(kv)
			if isKeyAtom(k) {
				if v, ok := h.Get4(k.MustStr()); ok {
					g4 = show(v)
				} else {
					g4 = "_"
				}
			}
		}); e != nil && fault == nil {
			fault = e
		}
		o.get = append(o.get, g)
		o.inc = append(o.inc, inc)
		if isKeyAtom(k) {
			o.get4 = append(o.get4, g4)
		}
	}
	return
}

func validPairs(args []sx.Sexp) bool {
	_, ok := pairsOf(args)
	return ok
}

// goMapPairs: steps of the `ehash` op (emitted as `@ehash`), which the model does not have: hashes built from Go maps
func goMapPairs(implOnly bool, op string, a []sx.Sexp) bool {
	if !implOnly || !validPairs(a) {
		return false
	}
	for _, p := range a {
		if p.List[0].IsList || isIntAtom(p.List[0]) {
			return false
		}
		if op == "gomaps" && !isKeyAtom(p.List[1]) {
			return false
		}
	}
	return true
}

func goValue(e sx.Sexp) interface{} {
	if t, v, ok := specialVal(e); ok {
		switch t {
		case "_":
			return nil
		case "bt":
			return true
		case "bf":
			return false
		case "(h)":
			return map[string]interface{}{}
		}
		return v
	}
	if !e.IsList {
		if isIntAtom(e) {
			return e.MustInt()
		}
		return e.MustStr()
	}
	vs := []interface{}{}
	for _, x := range e.Args() {
		vs = append(vs, goValue(x))
	}
	return vs
}

func hashUniverse(steps []sx.Sexp, implOnly bool) ([]sx.Sexp, bool) {
	uni := []sx.Sexp{}
	seen := map[string]bool{}
	add := func(k sx.Sexp) bool {
		s, ok := valStr(k)
		if !ok {
			return false
		}
		if !seen[s] {
			seen[s] = true
			uni = append(uni, k)
		}
		return true
	}
	isRef := func(e sx.Sexp) bool {
		if !isIntAtom(e) {
			return false
		}
		return e.MustInt() >= 0
	}
	for _, st := range steps {
		a := st.Args()
		switch st.Tag() {
		case "wrap", "parse", "parsea", "build":
			if !validPairs(a) {
				return nil, false
			}
			for _, p := range a {
				add(p.List[0])
			}
		case "gomapv", "gomapi", "gomaps":
			if !goMapPairs(implOnly, st.Tag(), a) {
				return nil, false
			}
			for _, p := range a {
				add(p.List[0])
			}
		case "fromArr", "fromFlat", "wrap2", "shv", "parsetop", "parsemix":
			// implementation-only constructors: WrapHashFromArray (array of pairs / flat array), WrapHash2, WrapStringPValue, the
			// parser's top-level `k => v` and entries among the elements of an array literal
			if !implOnly || !validPairs(a) || (st.Tag() == "parsetop" && len(a) != 1) {
				return nil, false
			}
			for _, p := range a {
				if st.Tag() == "shv" && (p.List[0].IsList || isIntAtom(p.List[0])) {
					return nil, false
				}
				add(p.List[0])
			}
		case "indexed":
			if !implOnly {
				return nil, false
			}
			for i, v := range a {
				if _, ok := valStr(v); !ok {
					return nil, false
				}
				add(sx.A(strconv.Itoa(i)))
			}
		case "addAllArr", "addAllFlat":
			if !implOnly || len(a) < 1 || !isRef(a[0]) || !validPairs(a[1:]) {
				return nil, false
			}
			for _, p := range a[1:] {
				add(p.List[0])
			}
		case "entries", "unique":
			if !implOnly || len(a) != 1 || !isRef(a[0]) {
				return nil, false
			}
		case "put", "mput", "add", "adda":
			if (st.Tag() == "add" || st.Tag() == "adda") && !implOnly {
				return nil, false
			}
			if len(a) != 3 || !isRef(a[0]) || !add(a[1]) {
				return nil, false
			}
			if _, ok := valStr(a[2]); !ok {
				return nil, false
			}
		case "merge", "mputall", "addAll", "mergeom":
			if (st.Tag() == "addAll" || st.Tag() == "mergeom") && !implOnly {
				return nil, false
			}
			if len(a) != 2 || !isRef(a[0]) || !isRef(a[1]) {
				return nil, false
			}
		case "delete", "get":
			if len(a) != 2 || !isRef(a[0]) || !add(a[1]) {
				return nil, false
			}
		case "get4":
			if len(a) != 2 || !isRef(a[0]) || !isKeyAtom(a[1]) {
				return nil, false
			}
			add(a[1])
		case "deleteAll":
			if len(a) != 2 || !isRef(a[0]) || !a[1].IsList {
				return nil, false
			}
			for _, k := range a[1].List {
				if !add(k) {
					return nil, false
				}
			}
		case "mnew":
			if len(a) != 0 {
				return nil, false
			}
		case "select", "reject":
			if len(a) != 2 || !isRef(a[0]) || !a[1].IsList {
				return nil, false
			}
			for _, k := range a[1].List {
				if !add(k) {
					return nil, false
				}
			}
		case "slice":
			if len(a) != 3 || !isRef(a[0]) || !isRef(a[1]) || !isRef(a[2]) {
				return nil, false
			}
		case "sort":
			if len(a) != 1 || !isRef(a[0]) {
				return nil, false
			}
		case "eachSlice":
			if len(a) != 2 || !isRef(a[0]) || !isIntAtom(a[1]) {
				return nil, false
			}
		case "mapKeys":
			if len(a) != 2 || !isRef(a[0]) || !add(a[1]) {
				return nil, false
			}
		default:
			return nil, false
		}
	}
	return uni, true
}

func entriesOf(args []sx.Sexp) []*types.HashEntry {
	es := make([]*types.HashEntry, 0, len(args))
	for _, p := range args {
		es = append(es, types.WrapHashEntry(valOf(p.List[0]), valOf(p.List[1])))
	}
	return es
}

func execHash(steps []sx.Sexp, implOnly bool) core.Result {
	uni, ok := hashUniverse(steps, implOnly)
	if !ok {
		return core.Result{Out: "bad-op", Pred: "n/a"}
	}
	uniS := make([]string, len(uni))
	for i, k := range uni {
		uniS[i], _ = valStr(k)
	}
	pool := []*hslot{}
	var out []string
	var fs failures
	tags := map[string]bool{}
	changed := false

	for si, st := range steps {
		a := st.Args()
		op := st.Tag()
		tags["hash:"+op] = true
		res := op
		var made *hslot      // the hash this step created (or mutated)
		var failClass string // class of a wrong result of this step
		var fault interface{}
		slot := func(i int) *hslot {
			n := int(a[i].MustInt())
			if n >= len(pool) {
				return nil
			}
			return pool[n]
		}
		switch op {
		case "wrap", "parse", "parsea", "build":
			ps, _ := pairsOf(a)
			r := newRef()
			for _, p := range ps {
				r.put(p.k, p.v)
			}
			var h px.OrderedMap
			switch op {
			case "wrap":
				fault = safely(func() { h = types.WrapHash(entriesOf(a)) })
			case "build":
				fault = safely(func() {
					h = types.BuildHash(len(a), func(_ *types.Hash, es []*types.HashEntry) []*types.HashEntry {
						return append(es, entriesOf(a)...)
					})
				})
			default:
				plain := len(a) > 0 || op == "parse"
				parts := []string{}
				for _, p := range a {
					plain = plain && plainText(p.List[0]) && plainText(p.List[1])
					if plain {
						parts = append(parts, text(p.List[0])+" => "+text(p.List[1]))
					}
				}
				if !plain {
					res = "skip"
					break
				}
				fault = safely(func() {
					if op == "parse" {
						h = types.Parse("{" + strings.Join(parts, ", ") + "}").(px.OrderedMap)
					} else {
						h = types.Parse("[" + strings.Join(parts, ", ") + "]").(px.List).At(0).(px.OrderedMap)
					}
				})
			}
			if h != nil {
				inKeys := []string{}
				for _, p := range ps {
					inKeys = append(inKeys, p.k)
				}
				made = &hslot{h: h, ref: r, tainted: hasDup(inKeys)}
				pool = append(pool, made)
				failClass = "literal-wrong"
				if len(r.keys) > 0 {
					changed = true
				}
			}
		case "gomapv", "gomapi", "gomaps":
			// a Go map holds one value per key (the last written); the hash lists the keys in ascending order
			ps, _ := pairsOf(a)
			last := map[string]pair{}
			raw := map[string]sx.Sexp{}
			for i, p := range ps {
				k := a[i].List[0].MustStr()
				last[k] = p
				raw[k] = a[i].List[1]
			}
			names := []string{}
			for k := range last {
				names = append(names, k)
			}
			sort.Strings(names)
			r := newRef()
			for _, k := range names {
				r.put(last[k].k, last[k].v)
			}
			var h px.OrderedMap
			fault = safely(func() {
				switch op {
				case "gomapv":
					m := map[string]px.Value{}
					for k, e := range raw {
						m[k] = valOf(e)
					}
					h = types.WrapStringToValueMap(m)
				case "gomapi":
					m := map[string]interface{}{}
					for k, e := range raw {
						m[k] = goValue(e)
					}
					h = types.WrapStringToInterfaceMap(px.CurrentContext(), m)
				default:
					m := map[string]string{}
					for k, e := range raw {
						m[k] = e.MustStr()
					}
					h = types.WrapStringToStringMap(m)
				}
			})
			if h != nil {
				made = &hslot{h: h, ref: r}
				pool = append(pool, made)
				failClass = "literal-wrong"
				changed = changed || len(r.keys) > 0
			}
		case "fromArr", "fromFlat", "wrap2", "shv", "indexed", "parsetop", "parsemix":
			var ps []pair
			if op == "indexed" {
				for i, v := range a {
					vs, _ := valStr(v)
					ps = append(ps, pair{strconv.Itoa(i), vs})
				}
			} else {
				ps, _ = pairsOf(a)
			}
			r := newRef()
			inKeys := []string{}
			for _, p := range ps {
				r.put(p.k, p.v)
				inKeys = append(inKeys, p.k)
			}
			var h, h2 px.OrderedMap
			var r2 *refMap
			switch op {
			case "fromArr":
				vs := []px.Value{}
				for _, p := range a {
					vs = append(vs, types.WrapValues([]px.Value{valOf(p.List[0]), valOf(p.List[1])}))
				}
				fault = safely(func() { h = types.WrapHashFromArray(types.WrapValues(vs)) })
			case "fromFlat":
				// a flat array [k, v, k, v …] is read as such unless the type of its elements is an Array type (then every
				// element is taken for a pair): only flat arrays with a scalar among their elements
				vs := []px.Value{}
				scalar := false
				for _, p := range a {
					vs = append(vs, valOf(p.List[0]), valOf(p.List[1]))
					scalar = scalar || !p.List[0].IsList || !p.List[1].IsList
				}
				if !scalar && len(a) > 0 {
					res = "skip"
					break
				}
				fault = safely(func() { h = types.WrapHashFromArray(types.WrapValues(vs)) })
			case "wrap2":
				vs := []px.Value{}
				for _, e := range entriesOf(a) {
					vs = append(vs, e)
				}
				fault = safely(func() { h = types.WrapHash2(types.WrapValues(vs)) })
			case "shv":
				sh := hash.NewStringHash(len(a))
				for _, p := range a {
					sh.Put(p.List[0].MustStr(), valOf(p.List[1]))
				}
				// the string hash itself holds one value per key (replaced in place)
				inKeys = r.keys
				fault = safely(func() { h = types.WrapStringPValue(sh) })
			case "indexed":
				vs := []px.Value{}
				for _, v := range a {
					vs = append(vs, valOf(v))
				}
				fault = safely(func() { h = types.IndexedFromArray(types.WrapValues(vs)) })
			case "parsetop":
				if !plainText(a[0].List[0]) || !plainText(a[0].List[1]) {
					res = "skip"
					break
				}
				fault = safely(func() { h = types.Parse(text(a[0].List[0]) + " => " + text(a[0].List[1])).(px.OrderedMap) })
			case "parsemix":
				// [7, k => v …, 8, k => v …]: each run of entries becomes one hash, the other elements stay where they are
				plain := len(a) >= 2
				for _, p := range a {
					plain = plain && plainText(p.List[0]) && plainText(p.List[1])
				}
				if !plain {
					res = "skip"
					break
				}
				half := len(a) / 2
				r, r2 = newRef(), newRef()
				parts := []string{"7"}
				k1, k2 := []string{}, []string{}
				for i, p := range a {
					if i == half {
						parts = append(parts, "8")
					}
					parts = append(parts, text(p.List[0])+" => "+text(p.List[1]))
					if i < half {
						r.put(ps[i].k, ps[i].v)
						k1 = append(k1, ps[i].k)
					} else {
						r2.put(ps[i].k, ps[i].v)
						k2 = append(k2, ps[i].k)
					}
				}
				inKeys = k1
				fault = safely(func() {
					l := types.Parse("[" + strings.Join(parts, ", ") + "]").(px.List)
					if l.Len() != 4 || show(l.At(0)) != "7" || show(l.At(2)) != "8" {
						fs.add("literal-wrong", "step %d %s: the array literal has %d elements: %s", si, st, l.Len(), l)
						return
					}
					h, h2 = l.At(1).(px.OrderedMap), l.At(3).(px.OrderedMap)
				})
				if h != nil && h2 != nil {
					pool = append(pool, &hslot{h: h2, ref: r2, tainted: hasDup(k2)})
				}
			}
			if h != nil {
				made = &hslot{h: h, ref: r, tainted: hasDup(inKeys)}
				pool = append(pool, made)
				failClass = "literal-wrong"
				changed = changed || len(r.keys) > 0
			}
		case "add", "adda", "addAll", "addAllArr", "addAllFlat", "mergeom":
			// the List forms of Merge (implementation only): Add of an entry / of a two-element array, AddAll of a hash / of an
			// array of pairs / of a flat array; Merge with an ordered map of a foreign type
			s := slot(0)
			if s == nil {
				res = "bad-ref"
				break
			}
			arg := newRef()
			argTainted := false
			var call func() px.List
			switch op {
			case "add", "adda":
				k, _ := valStr(a[1])
				v, _ := valStr(a[2])
				arg.put(k, v)
				if op == "add" {
					call = func() px.List { return s.h.Add(types.WrapHashEntry(valOf(a[1]), valOf(a[2]))) }
				} else {
					call = func() px.List { return s.h.Add(types.WrapValues([]px.Value{valOf(a[1]), valOf(a[2])})) }
				}
			case "addAll", "mergeom":
				t := slot(1)
				if t == nil {
					res = "bad-ref"
					break
				}
				arg = t.ref.copy()
				argTainted = t.tainted
				if op == "addAll" {
					call = func() px.List { return s.h.AddAll(t.h) }
				} else {
					call = func() px.List { return s.h.Merge(foreignMap{t.h}) }
				}
			default:
				ps, _ := pairsOf(a[1:])
				keys := []string{}
				vs := []px.Value{}
				scalar := len(ps) == 0
				for i, p := range ps {
					arg.put(p.k, p.v)
					keys = append(keys, p.k)
					kv, vv := valOf(a[1+i].List[0]), valOf(a[1+i].List[1])
					if op == "addAllArr" {
						vs = append(vs, types.WrapValues([]px.Value{kv, vv}))
					} else {
						vs = append(vs, kv, vv)
						scalar = scalar || !a[1+i].List[0].IsList || !a[1+i].List[1].IsList
					}
				}
				if op == "addAllFlat" && !scalar {
					res = "skip"
					break
				}
				argTainted = hasDup(keys)
				call = func() px.List { return s.h.AddAll(types.WrapValues(vs)) }
			}
			if call == nil {
				break
			}
			var h px.OrderedMap
			fault = safely(func() { h = call().(px.OrderedMap) })
			if unsupported(fault) && op == "addAll" {
				// declined (AddAll of a mutable hash): not a wrong answer
				fault = nil
				res = op + "=unsupported"
				break
			}
			if h != nil {
				r := s.ref.copy()
				for _, k := range arg.keys {
					if r.put(k, arg.vals[k]) {
						changed = true
					}
				}
				made = &hslot{h: h, ref: r, tainted: s.tainted || argTainted}
				pool = append(pool, made)
				failClass = "merge-order"
			}
		case "entries", "unique":
			s := slot(0)
			if s == nil {
				res = "bad-ref"
				break
			}
			var h px.OrderedMap
			fault = safely(func() {
				if op == "entries" {
					h = s.h.Entries().(px.OrderedMap)
				} else {
					h = s.h.Unique().(px.OrderedMap)
				}
			})
			if h != nil {
				// for a mutable hash: a hash of its own (must not follow later changes of the builder)
				if s.mutable != nil && h == px.OrderedMap(s.mutable) {
					fs.add("hash-alias-of-mutable", "step %d %s: answers the mutable hash itself", si, st)
				}
				made = &hslot{h: h, ref: s.ref.copy(), tainted: s.tainted}
				pool = append(pool, made)
				failClass = "literal-wrong"
			}
		case "mnew":
			m := types.NewMutableHash()
			made = &hslot{h: m, mutable: m, ref: newRef()}
			pool = append(pool, made)
		case "put":
			s := slot(0)
			if s == nil {
				res = "bad-ref"
				break
			}
			k, _ := valStr(a[1])
			v, _ := valStr(a[2])
			var h px.OrderedMap
			fault = safely(func() {
				h = s.h.Merge(types.WrapHash([]*types.HashEntry{types.WrapHashEntry(valOf(a[1]), valOf(a[2]))}))
			})
			if h != nil {
				r := s.ref.copy()
				if r.put(k, v) {
					changed = true
				}
				made = &hslot{h: h, ref: r, tainted: s.tainted}
				pool = append(pool, made)
				failClass = "merge-order"
			}
		case "merge":
			s, t := slot(0), slot(1)
			if s == nil || t == nil {
				res = "bad-ref"
				break
			}
			var h px.OrderedMap
			fault = safely(func() { h = s.h.Merge(t.h) })
			if h != nil {
				r := s.ref.copy()
				for _, k := range t.ref.keys {
					if r.put(k, t.ref.vals[k]) {
						changed = true
					}
				}
				made = &hslot{h: h, ref: r, tainted: s.tainted || t.tainted}
				pool = append(pool, made)
				failClass = "merge-order"
			}
		case "delete", "deleteAll":
			s := slot(0)
			if s == nil {
				res = "bad-ref"
				break
			}
			if s.mutable != nil && !implOnly {
				// (the model's pool machine has no Delete on a mutable hash; the implementation-only lines exercise it: the answer is
				// a hash of its own also when nothing was removed)
				res = "skip"
				break
			}
			var ks []sx.Sexp
			if op == "delete" {
				ks = []sx.Sexp{a[1]}
			} else {
				ks = a[1].List
			}
			var h px.OrderedMap
			fault = safely(func() {
				if op == "delete" {
					h = s.h.(px.List).Delete(valOf(a[1])).(px.OrderedMap)
				} else {
					kvs := []px.Value{}
					for _, k := range ks {
						kvs = append(kvs, valOf(k))
					}
					h = s.h.(px.List).DeleteAll(types.WrapValues(kvs)).(px.OrderedMap)
				}
			})
			if h != nil {
				r := s.ref.copy()
				for _, k := range ks {
					kk, _ := valStr(k)
					if r.del(kk) {
						changed = true
					}
				}
				made = &hslot{h: h, ref: r, tainted: s.tainted}
				pool = append(pool, made)
				failClass = "delete-wrong-keys"
			}
		case "slice", "select", "reject", "sort", "mapKeys":
			s := slot(0)
			if s == nil {
				res = "bad-ref"
				break
			}
			if s.mutable != nil && !implOnly {
				res = "skip" // (the model's pool machine has them on immutable hashes only; the implementation-only lines exercise them)
				break
			}
			r := newRef()
			tainted := s.tainted
			var h px.OrderedMap
			switch op {
			case "slice":
				i, j := int(a[1].MustInt()), int(a[2].MustInt())
				// the bounds are judged against the implementation's own length (a hash holding two equal keys is longer
				// than its reference map); outside them: a caller error, outside the property
				if !(i <= j && j <= s.h.Len()) {
					res = "skip"
					break
				}
				for n := i; n < j && n < len(s.ref.keys); n++ {
					r.put(s.ref.keys[n], s.ref.vals[s.ref.keys[n]])
				}
				fault = safely(func() { h = s.h.(px.List).Slice(i, j).(px.OrderedMap) })
				failClass = "slice-wrong"
			case "select", "reject":
				in := map[string]bool{}
				for _, k := range a[1].List {
					ks, _ := valStr(k)
					in[ks] = true
				}
				for _, k := range s.ref.keys {
					if in[k] == (op == "select") {
						r.put(k, s.ref.vals[k])
					}
				}
				pred := func(k, _ px.Value) bool { return in[show(k)] }
				fault = safely(func() {
					if op == "select" {
						h = s.h.SelectPairs(pred)
					} else {
						h = s.h.RejectPairs(pred)
					}
				})
				failClass = "filter-wrong"
			case "sort":
				// sort.Sort is not stable: the order among equal keys is unspecified, so a hash that (as observed on the
				// implementation) holds two equal keys is not sorted — on either side
				implKeys := []string{}
				s.h.Keys().Each(func(k px.Value) { implKeys = append(implKeys, show(k)) })
				if hasDup(implKeys) {
					res = "skip"
					break
				}
				ks := append([]string{}, s.ref.keys...)
				sort.Strings(ks)
				for _, k := range ks {
					r.put(k, s.ref.vals[k])
				}
				fault = safely(func() {
					h = s.h.(px.SortableList).Sort(func(x, y px.Value) bool { return show(x) < show(y) }).(px.OrderedMap)
				})
				failClass = "sort-wrong"
			case "mapKeys":
				// every key becomes the same key: the specification's map keeps one entry (first position, last value)
				nk, _ := valStr(a[1])
				nkv := valOf(a[1])
				for _, k := range s.ref.keys {
					r.put(nk, s.ref.vals[k])
				}
				tainted = tainted || len(s.ref.keys) > 1
				fault = safely(func() {
					h = s.h.MapEntries(func(e px.MapEntry) px.MapEntry { return types.WrapHashEntry(nkv, e.Value()) })
				})
				failClass = "literal-wrong"
			}
			if h != nil {
				if !r.equal(s.ref) {
					changed = true
				}
				made = &hslot{h: h, ref: r, tainted: tainted}
				pool = append(pool, made)
			}
		case "eachSlice":
			s := slot(0)
			if s == nil {
				res = "bad-ref"
				break
			}
			n := int(a[1].MustInt())
			chunks := []string{}
			e := safely(func() {
				s.h.(px.List).EachSlice(n, func(c px.List) {
					parts := []string{}
					c.Each(func(x px.Value) { parts = append(parts, show(x)) })
					chunks = append(chunks, "("+strings.Join(parts, " ")+")")
				})
			})
			exp := []string{}
			if n >= 1 {
				for i := 0; i < len(s.ref.keys); i += n {
					parts := []string{}
					for j := i; j < i+n && j < len(s.ref.keys); j++ {
						parts = append(parts, s.ref.keys[j]+"="+s.ref.vals[s.ref.keys[j]])
					}
					exp = append(exp, "("+strings.Join(parts, " ")+")")
				}
			}
			switch {
			case e != nil && n < 1 && strings.Contains(fmt.Sprint(e), "EachSlice"):
				res = op + "=illegal"
			case e != nil:
				fault = e
			default:
				res = op + "=[" + strings.Join(chunks, " ") + "]"
				if n < 1 {
					fs.add("hash-eachSlice", "step %d %s: a slice size below one was accepted", si, st)
				} else if !sameStrings(chunks, exp) {
					cl := "hash-eachSlice"
					if s.tainted {
						cl = "literal-dup-keys"
					}
					fs.add(cl, "step %d %s: impl %s reference %s", si, st, res, strings.Join(exp, " "))
				}
			}
		case "get", "get4":
			s := slot(0)
			if s == nil {
				res = "bad-ref"
				break
			}
			k, _ := valStr(a[1])
			fault = safely(func() {
				if op == "get" {
					kv := valOf(a[1])
					v, ok := s.h.Get(kv)
					res = op + "=" + show(v) + "," + sx.B(ok) + "," + show(s.h.Get2(kv, types.WrapInteger(-1))) + "," + sx.B(s.h.IncludesKey(kv))
				} else {
					v, ok := s.h.Get4(a[1].MustStr())
					res = op + "=" + show(v) + "," + sx.B(ok) + "," + show(s.h.Get5(a[1].MustStr(), types.WrapInteger(-1))) + "," + sx.B(s.h.IncludesKey2(a[1].MustStr()))
				}
			})
			if fault == nil {
				exp := op + "=" + s.ref.get(k) + "," + sx.B(s.ref.has(k)) + ","
				if s.ref.has(k) {
					exp += s.ref.get(k)
				} else {
					exp += "-1"
				}
				exp += "," + sx.B(s.ref.has(k))
				if res != exp {
					cl := "lookup-wrong"
					if s.tainted {
						cl = "literal-dup-keys"
					}
					fs.add(cl, "step %d %s: impl %s reference %s", si, st, res, exp)
				}
			}
			made = s
			failClass = "lookup-wrong"
		case "mput", "mputall":
			s := slot(0)
			if s == nil || (op == "mputall" && slot(1) == nil) {
				res = "bad-ref"
				break
			}
			if s.mutable == nil {
				res = "skip"
				break
			}
			if op == "mput" {
				k, _ := valStr(a[1])
				v, _ := valStr(a[2])
				fault = safely(func() { s.mutable.Put(valOf(a[1]), valOf(a[2])) })
				if s.ref.put(k, v) {
					changed = true
				}
			} else {
				t := slot(1)
				tr := t.ref.copy() // the argument may be the receiver itself
				fault = safely(func() { s.mutable.PutAll(t.h) })
				for _, k := range tr.keys {
					if s.ref.put(k, tr.vals[k]) {
						changed = true
					}
				}
				s.tainted = s.tainted || t.tainted
			}
			made = s
			failClass = "merge-order"
		}
		if fault != nil {
			out = append(out, res+"=fault")
			fs.add("hash-fault", "step %d %s: runtime fault %v", si, st, fault)
			break
		}
		if made == nil {
			out = append(out, res)
			continue
		}
		o, of := hashObs(made.h, uni)
		out = append(out, res+" "+o.String())
		if of != nil {
			fs.add("hash-fault", "step %d %s: runtime fault in a query: %v", si, st, of)
			break
		}
		// the property, directly: the result, and every other hash of the pool (none may have changed)
		for pi, s := range pool {
			var got *obs
			if s == made {
				got = o
			} else {
				var e interface{}
				got, e = hashObs(s.h, uni)
				if e != nil {
					fs.add("hash-fault", "step %d %s: runtime fault reading pool[%d]: %v", si, st, pi, e)
					continue
				}
			}
			gs := got.String()
			exp := refObs(s.ref, uniS, true, false)
			if hasDup(got.keys) {
				// two equal keys: the known consequence of a literal with a repeated key, or a new violation (e.g. a merge
				// of hashes with unique keys that appends a key it should have replaced)
				cl := "dup-keys"
				if s.tainted {
					cl = "literal-dup-keys"
				}
				if s.last != gs {
					fs.add(cl, "step %d %s: pool[%d] holds two equal keys: %s", si, st, pi, gs)
				}
			} else if gs != exp.String() {
				cl := failClass
				if s != made {
					cl = "hash-receiver-changed"
					if s.last == gs {
						cl = "" // already reported when it was made
					}
				} else {
					cl = hashClass(exp, got, failClass)
				}
				if s.tainted && cl != "" {
					cl = "literal-dup-keys"
				}
				if cl != "" {
					fs.add(cl, "step %d %s: pool[%d] impl %s reference %s", si, st, pi, gs, exp)
				}
			}
			if s == made && !s.tainted && !hasDup(got.keys) && gs == exp.String() {
				hashReads(s.h, s.ref, uni, &fs, si, st)
			}
			s.last = gs
		}
	}
	finals := []string{}
	for _, s := range pool {
		o, of := hashObs(s.h, uni)
		if of != nil {
			finals = append(finals, "fault")
			fs.add("hash-fault", "final: runtime fault %v", of)
			continue
		}
		finals = append(finals, o.String())
	}
	r := core.Result{Out: strings.Join(out, " | ") + " || " + strings.Join(finals, " ; "), Pred: "ok", NonTrivial: changed}
	for t := range tags {
		r.Tags = append(r.Tags, t)
	}
	if f := fs.pick(); f != nil {
		r.Pred = "FAIL " + f.class + " " + strings.Replace(f.detail, "\t", " ", -1)
	}
	return r
}

func hashClass(exp, got *obs, opClass string) string {
	viewsOK := len(got.each) == got.n && len(got.keys) == got.n && len(got.vals) == got.n && len(got.at) == got.n+1
	if viewsOK {
		for i, p := range got.each {
			if got.keys[i] != p.k || got.vals[i] != p.v || got.at[i] != p.k+"="+p.v {
				viewsOK = false
			}
		}
		if got.at[got.n] != "_" {
			viewsOK = false
		}
	}
	if !viewsOK {
		return "views-differ"
	}
	if !samePairs(exp.each, got.each) {
		return opClass
	}
	return "lookup-wrong"
}

// foreignMap: an ordered map that is neither a *types.Hash nor a *types.MutableHashValue (Merge must then read it through EachPair)
type foreignMap struct{ px.OrderedMap }

// hashReads: a hash without repeated keys answers every read-only query of px.List / px.OrderedMap as the sequence of its
// entries in insertion order (implementation only: these queries are not part of the canonical output)
func hashReads(h px.OrderedMap, r *refMap, uni []sx.Sexp, fs *failures, si int, st sx.Sexp) {
	bad := func(what, got, exp string) {
		fs.add("hash-read", "step %d %s: %s answers %s, the ordered map answers %s", si, st, what, got, exp)
	}
	join := func(vs []string) string { return strings.Join(vs, " ") }
	n := len(r.keys)
	ents, vals, flat := []string{}, []string{}, []string{}
	for _, k := range r.keys {
		ents = append(ents, k+"="+r.vals[k])
		vals = append(vals, r.vals[k])
		flat = append(flat, k, r.vals[k])
	}
	if e := safely(func() {
		if h.Len() != n || h.IsEmpty() != (n == 0) {
			bad("Len/IsEmpty", fmt.Sprint(h.Len(), h.IsEmpty()), fmt.Sprint(n, n == 0))
		}
		collect := func(each func(px.Consumer)) string {
			got := []string{}
			each(func(v px.Value) { got = append(got, show(v)) })
			return join(got)
		}
		if g := collect(h.Each); g != join(ents) {
			bad("Each", g, join(ents))
		}
		if g := collect(h.EachKey); g != join(r.keys) {
			bad("EachKey", g, join(r.keys))
		}
		if g := collect(h.EachValue); g != join(vals) {
			bad("EachValue", g, join(vals))
		}
		got, exp := []string{}, []string{}
		h.EachWithIndex(func(v px.Value, i int) { got = append(got, strconv.Itoa(i)+":"+show(v)) })
		for i, x := range ents {
			exp = append(exp, strconv.Itoa(i)+":"+x)
		}
		if join(got) != join(exp) {
			bad("EachWithIndex", join(got), join(exp))
		}
		got = []string{}
		for _, v := range h.AppendTo([]px.Value{types.WrapInteger(77)}) {
			got = append(got, show(v))
		}
		if join(got) != strings.TrimSpace("77 "+join(ents)) {
			bad("AppendTo", join(got), "77 "+join(ents))
		}
		if ae, ok := h.(interface {
			AppendEntriesTo([]*types.HashEntry) []*types.HashEntry
		}); ok {
			got = []string{}
			for _, v := range ae.AppendEntriesTo([]*types.HashEntry{types.WrapHashEntry(types.WrapInteger(77), types.WrapInteger(78))}) {
				got = append(got, show(v))
			}
			if join(got) != strings.TrimSpace("77=78 "+join(ents)) {
				bad("AppendEntriesTo", join(got), "77=78 "+join(ents))
			}
		}
		if ar, ok := h.(px.Arrayable); ok {
			exp = []string{}
			for _, k := range r.keys {
				exp = append(exp, "(a "+k+" "+r.vals[k]+")")
			}
			if g := seqText(ar.AsArray().(px.Value)); g != refSeqStr(exp) {
				bad("AsArray", g, refSeqStr(exp))
			}
		}
		for _, same := range []struct {
			what string
			l    px.List
		}{{"Entries", h.Entries()}, {"Unique", h.Unique()}} {
			if g := collect(same.l.Each); g != join(ents) || same.l.Len() != n {
				bad(same.what, g, join(ents))
			}
		}
		if g := seqText(h.Flatten().(px.Value)); g != refSeqStr(flattenTexts(flat)) {
			bad("Flatten", g, refSeqStr(flattenTexts(flat)))
		}
		allStr := true
		for _, k := range r.keys {
			allStr = allStr && strings.HasPrefix(k, "x")
		}
		if h.AllKeysAreStrings() != allStr {
			bad("AllKeysAreStrings", fmt.Sprint(!allStr), fmt.Sprint(allStr))
		}
		// predicates over entries: "is the i-th entry" (the first three), everything, nothing
		preds := []func(string) bool{func(string) bool { return true }, func(string) bool { return false }}
		for i := 0; i < n && i < 3; i++ {
			x := ents[i]
			preds = append(preds, func(y string) bool { return y == x })
		}
		for pi, pred := range preds {
			p := func(v px.Value) bool { return pred(show(v)) }
			bp := func(k, v px.Value) bool { return pred(show(k) + "=" + show(v)) }
			sel, rej, all, any, found := []string{}, []string{}, true, false, "_"
			for _, x := range ents {
				if pred(x) {
					sel = append(sel, x)
					any = true
					if found == "_" {
						found = x
					}
				} else {
					rej = append(rej, x)
					all = false
				}
			}
			name := "pred" + strconv.Itoa(pi)
			if g := collect(h.Select(p).Each); g != join(sel) {
				bad("Select "+name, g, join(sel))
			}
			if g := collect(h.Reject(p).Each); g != join(rej) {
				bad("Reject "+name, g, join(rej))
			}
			if g := collect(h.SelectPairs(bp).Each); g != join(sel) {
				bad("SelectPairs "+name, g, join(sel))
			}
			if g := collect(h.RejectPairs(bp).Each); g != join(rej) {
				bad("RejectPairs "+name, g, join(rej))
			}
			if h.All(p) != all || h.Any(p) != any || h.AllPairs(bp) != all || h.AnyPair(bp) != any {
				bad("All/Any/AllPairs/AnyPair "+name, fmt.Sprint(h.All(p), h.Any(p), h.AllPairs(bp), h.AnyPair(bp)), fmt.Sprint(all, any, all, any))
			}
			g := "_"
			if v, ok := h.Find(p); ok {
				g = show(v)
			}
			if g != found {
				bad("Find "+name, g, found)
			}
		}
		if g := seqText(h.Map(func(v px.Value) px.Value { return v.(px.MapEntry).Key() }).(px.Value)); g != refSeqStr(r.keys) {
			bad("Map", g, refSeqStr(r.keys))
		}
		exp = []string{}
		for _, k := range r.keys {
			exp = append(exp, k+"=(a "+r.vals[k]+")")
		}
		if g := collect(h.MapValues(func(v px.Value) px.Value { return types.WrapValues([]px.Value{v}) }).Each); g != join(exp) {
			bad("MapValues", g, join(exp))
		}
		exp = []string{}
		for _, k := range r.keys {
			exp = append(exp, r.vals[k]+"="+k)
		}
		if !hasDup(vals) { // swapped: value => key (a hash only when the values are distinct)
			if g := collect(h.MapEntries(func(e px.MapEntry) px.MapEntry { return types.WrapHashEntry(e.Value(), e.Key()) }).Each); g != join(exp) {
				bad("MapEntries", g, join(exp))
			}
		}
		pairUp := func(x, y px.Value) px.Value { return types.WrapValues([]px.Value{x, y}) }
		fold := func(memo string, xs []string) string {
			for _, x := range xs {
				memo = "(a " + memo + " " + x + ")"
			}
			return memo
		}
		if g, exp := show(h.Reduce2(types.WrapInteger(77), pairUp)), fold("77", ents); g != exp {
			bad("Reduce2", g, exp)
		}
		expR := "_"
		if n > 0 {
			expR = fold(ents[0], ents[1:])
		}
		if g := show(h.Reduce(pairUp)); g != expR {
			bad("Reduce", g, expR)
		}
		// the producer forms of the lookups, over the universe
		for _, k := range uni {
			ks, _ := valStr(k)
			exp := r.get(ks)
			if !r.has(ks) {
				exp = "-7"
			}
			dflt := func() px.Value { return types.WrapInteger(-7) }
			if g := show(h.Get3(valOf(k), dflt)); g != exp {
				bad("Get3 "+ks, g, exp)
			}
			// the whole lookup family with the found flag spelled out (a present key whose value is undef IS present: the canonical
			// output prints `_` for undef and for "not found" alike)
			found := func(v px.Value, ok bool) string { return show(v) + "," + sx.B(ok) }
			expF := r.get(ks) + "," + sx.B(r.has(ks))
			if v, ok := h.Get(valOf(k)); found(v, ok) != expF {
				bad("Get "+ks, found(v, ok), expF)
			}
			if g := show(h.Get2(valOf(k), types.WrapInteger(-7))); g != exp {
				bad("Get2 "+ks, g, exp)
			}
			if g := h.IncludesKey(valOf(k)); g != r.has(ks) {
				bad("IncludesKey "+ks, sx.B(g), sx.B(r.has(ks)))
			}
			if isKeyAtom(k) {
				if v, ok := h.Get4(k.MustStr()); found(v, ok) != expF {
					bad("Get4 "+ks, found(v, ok), expF)
				}
				if g := show(h.Get5(k.MustStr(), types.WrapInteger(-7))); g != exp {
					bad("Get5 "+ks, g, exp)
				}
				if g := h.IncludesKey2(k.MustStr()); g != r.has(ks) {
					bad("IncludesKey2 "+ks, sx.B(g), sx.B(r.has(ks)))
				}
				if g := show(h.Get6(k.MustStr(), dflt)); g != exp {
					bad("Get6 "+ks, g, exp)
				}
				g, exp := "_", "_"
				if e, ok := h.GetEntry(k.MustStr()); ok {
					g = show(e)
				}
				if r.has(ks) {
					exp = ks + "=" + r.get(ks)
				}
				if g != exp {
					bad("GetEntry "+ks, g, exp)
				}
			}
		}
		// the case-insensitive lookup answers the FIRST entry whose key, printed, equals the name up to the case of letters; the
		// string map holds every entry under its printed key (compared when the printed keys are distinct: all keys strings)
		printed := func(k string) (string, bool) {
			if strings.HasPrefix(k, "x") {
				b, _ := sx.A(k).AsBytes()
				return string(b), true
			}
			return k, !strings.HasPrefix(k, "(")
		}
		for _, k := range uni {
			if !isKeyAtom(k) {
				continue
			}
			name := strings.ToUpper(k.MustStr())
			exp := "_"
			for _, rk := range r.keys {
				if p, ok := printed(rk); ok && strings.EqualFold(p, name) {
					exp = rk + "=" + r.vals[rk]
					break
				}
			}
			g := "_"
			if e, ok := h.GetEntryFold(name); ok {
				g = show(e)
			}
			if g != exp {
				bad("GetEntryFold "+sx.Str(name).Atom, g, exp)
			}
		}
		if allStr {
			m := h.ToStringMap()
			got = []string{}
			for _, k := range r.keys {
				p, _ := printed(k)
				if v, ok := m[p]; ok {
					got = append(got, k+"="+show(v))
				}
			}
			if len(m) != n || join(got) != join(ents) {
				bad("ToStringMap", fmt.Sprint(len(m))+" entries: "+join(got), join(ents))
			}
		}
		// Equals / ToKey: equal to (and keyed as) the hash of the same entries built afresh, in this order and in the reverse order
		// (the order of the entries is not part of the equality of hashes); different from a hash with one entry more, one entry
		// fewer, one value replaced, one key replaced
		mk := func(keys []string, repl map[string]string) *types.Hash {
			es := []*types.HashEntry{}
			for _, k := range keys {
				v := r.vals[k]
				if nv, ok := repl[k]; ok {
					v = nv
				}
				es = append(es, types.WrapHashEntry(valFromText(k), valFromText(v)))
			}
			return types.WrapHash(es)
		}
		rev := make([]string, n)
		for i, k := range r.keys {
			rev[n-1-i] = k
		}
		hv := h.(px.Value)
		key := string(px.ToKey(hv))
		for _, o := range []*types.Hash{mk(r.keys, nil), mk(rev, nil)} {
			if !hv.Equals(o, nil) || !o.Equals(hv, nil) || key != string(px.ToKey(o)) {
				bad("Equals/ToKey", "differs from the hash of its entries", "same")
			}
		}
		others := []*types.Hash{mk(r.keys, nil).Merge(types.WrapHash([]*types.HashEntry{types.WrapHashEntry(types.WrapInteger(424242), types.WrapInteger(1))})).(*types.Hash)}
		for i, k := range r.keys {
			others = append(others, mk(r.keys, map[string]string{k: "424242"}))
			less := append(append([]string{}, r.keys[:i]...), r.keys[i+1:]...)
			others = append(others, mk(less, nil))
			others = append(others, mk(less, nil).Merge(types.WrapHash([]*types.HashEntry{types.WrapHashEntry(types.WrapInteger(424242), valFromText(r.vals[k]))})).(*types.Hash))
		}
		for _, o := range others {
			if hv.Equals(o, nil) || o.Equals(hv, nil) || key == string(px.ToKey(o)) {
				bad("Equals/ToKey", "same as "+collect(o.Each), "different")
			}
		}
	}); e != nil {
		fs.add("hash-read-fault", "step %d %s: runtime fault in a read: %v", si, st, e)
	}
}

// ==== Array ==============================================================================================================

// seqText prints a value with every hash entry shown as the sequence of its key and its value (at any depth)
func seqText(v px.Value) string {
	switch v := v.(type) {
	case *types.HashEntry:
		return "(a " + seqText(v.Key()) + " " + seqText(v.Value()) + ")"
	case *types.Array:
		parts := []string{"a"}
		v.Each(func(e px.Value) { parts = append(parts, seqText(e)) })
		return "(" + strings.Join(parts, " ") + ")"
	}
	return show(v)
}

func arrStr(l px.List) string {
	return seqText(l.(px.Value)) // an entry is the sequence of its key and its value
}

// valFromText: the value a canonical text denotes (an entry text denotes the array of its two elements)
func valFromText(t string) px.Value {
	xs, err := sx.Parse(t)
	if err != nil || len(xs) != 1 {
		panic("valFromText: " + t)
	}
	return valOf(xs[0])
}

func refSeqStr(r []string) string { return "(" + strings.Join(append([]string{"a"}, r...), " ") + ")" }

// seqElems: the element texts of a list, by Each
func seqElems(l px.List) []string {
	out := []string{}
	if e := safely(func() { l.Each(func(v px.Value) { out = append(out, seqText(v)) }) }); e != nil {
		return nil
	}
	return out
}

func unsupported(fault interface{}) bool {
	return fault != nil && strings.Contains(fmt.Sprint(fault), "Operation not supported")
}

// seqReads: every read-only query of a list (an array, or a hash entry = the two-element sequence of its key and value)
// answers what the sequence `ref` answers.  class = "entry" | "arr" (failure classes <class>-read, <class>-fault)
func seqReads(l px.List, ref []string, class string, fs *failures, si int, st sx.Sexp) {
	bad := func(what, got, exp string) {
		fs.add(class+"-read", "step %d %s: %s %s answers %s, the sequence answers %s", si, st, arrStr(l), what, got, exp)
	}
	join := func(vs []string) string { return strings.Join(vs, " ") }
	n := len(ref)
	if e := safely(func() {
		if l.Len() != n || l.IsEmpty() != (n == 0) {
			bad("Len/IsEmpty", fmt.Sprint(l.Len(), l.IsEmpty()), fmt.Sprint(n, n == 0))
		}
		got := []string{}
		l.Each(func(v px.Value) { got = append(got, seqText(v)) })
		if join(got) != join(ref) {
			bad("Each", join(got), join(ref))
		}
		got = []string{}
		exp := []string{}
		l.EachWithIndex(func(v px.Value, i int) { got = append(got, strconv.Itoa(i)+":"+seqText(v)) })
		for i, x := range ref {
			exp = append(exp, strconv.Itoa(i)+":"+x)
		}
		if join(got) != join(exp) {
			bad("EachWithIndex", join(got), join(exp))
		}
		got = []string{}
		for _, v := range l.AppendTo([]px.Value{types.WrapInteger(77)}) {
			got = append(got, seqText(v))
		}
		if join(got) != strings.TrimSpace("77 "+join(ref)) {
			bad("AppendTo", join(got), "77 "+join(ref))
		}
		if ar, ok := l.(px.Arrayable); ok {
			if a := arrStr(ar.AsArray()); a != refSeqStr(ref) {
				bad("AsArray", a, refSeqStr(ref))
			}
		}
		if a := arrStr(types.WrapArray3(l)); a != refSeqStr(ref) {
			bad("WrapArray3", a, refSeqStr(ref))
		}
		for i := -1; i <= n; i++ {
			exp := "_"
			if i >= 0 && i < n {
				exp = ref[i]
			}
			if g := seqText(l.At(i)); g != exp {
				bad("At "+strconv.Itoa(i), g, exp)
			}
		}
		// predicates: "is the i-th distinct element" (the first three), everything, nothing
		preds := []func(string) bool{func(string) bool { return true }, func(string) bool { return false }}
		seen := map[string]bool{}
		for _, x := range ref {
			if !seen[x] && len(seen) < 3 {
				seen[x] = true
				x := x
				preds = append(preds, func(y string) bool { return y == x })
			}
		}
		for pi, pred := range preds {
			p := func(v px.Value) bool { return pred(seqText(v)) }
			sel, rej, all, any, found := []string{}, []string{}, true, false, "_"
			for _, x := range ref {
				if pred(x) {
					sel = append(sel, x)
					any = true
					if found == "_" {
						found = x
					}
				} else {
					rej = append(rej, x)
					all = false
				}
			}
			name := "pred" + strconv.Itoa(pi)
			if g := arrStr(l.Select(p)); g != refSeqStr(sel) {
				bad("Select "+name, g, refSeqStr(sel))
			}
			if g := arrStr(l.Reject(p)); g != refSeqStr(rej) {
				bad("Reject "+name, g, refSeqStr(rej))
			}
			if l.All(p) != all || l.Any(p) != any {
				bad("All/Any "+name, fmt.Sprint(l.All(p), l.Any(p)), fmt.Sprint(all, any))
			}
			g := "_"
			if v, ok := l.Find(p); ok {
				g = seqText(v)
			}
			if g != found {
				bad("Find "+name, g, found)
			}
		}
		m := l.Map(func(v px.Value) px.Value { return types.WrapValues([]px.Value{v}) })
		exp = []string{}
		for _, x := range ref {
			exp = append(exp, "(a "+x+")")
		}
		if g := arrStr(m); g != refSeqStr(exp) {
			bad("Map", g, refSeqStr(exp))
		}
		pairUp := func(x, y px.Value) px.Value { return types.WrapValues([]px.Value{x, y}) }
		fold := func(memo string, xs []string) string {
			for _, x := range xs {
				memo = "(a " + memo + " " + x + ")"
			}
			return memo
		}
		if g, exp := seqText(l.Reduce2(types.WrapInteger(77), pairUp)), fold("77", ref); g != exp {
			bad("Reduce2", g, exp)
		}
		expR := "_"
		if n > 0 {
			expR = fold(ref[0], ref[1:])
		}
		if g := seqText(l.Reduce(pairUp)); g != expR {
			bad("Reduce", g, expR)
		}
		// every slice of a short list
		if n <= 4 {
			for i := 0; i <= n; i++ {
				for j := i; j <= n; j++ {
					if g := arrStr(l.Slice(i, j)); g != refSeqStr(ref[i:j]) {
						bad(fmt.Sprintf("Slice %d %d", i, j), g, refSeqStr(ref[i:j]))
					}
				}
			}
		}
		// equal to, and keyed as, the array of the same elements — in both directions; different from, and keyed unlike, an
		// array with one element more, or with one element replaced
		vs := make([]px.Value, n)
		for i, x := range ref {
			vs[i] = valFromText(x)
		}
		lv := l.(px.Value)
		key := string(px.ToKey(lv))
		same := types.WrapValues(vs)
		if !lv.Equals(same, nil) || !same.Equals(lv, nil) || key != string(px.ToKey(same)) {
			bad("Equals/ToKey", "differs from the array of its elements", "same")
		}
		if n == 2 {
			he := types.WrapHashEntry(vs[0], vs[1])
			if !lv.Equals(he, nil) || !he.Equals(lv, nil) || key != string(px.ToKey(he)) {
				bad("Equals/ToKey", "differs from the entry of its two elements", "same")
			}
		}
		marker := types.WrapInteger(424242)
		others := []*types.Array{types.WrapValues(append(append([]px.Value{}, vs...), marker))}
		for i := range vs {
			o := append([]px.Value{}, vs...)
			o[i] = marker
			others = append(others, types.WrapValues(o))
		}
		if n > 0 {
			others = append(others, types.WrapValues(append([]px.Value{}, vs[:n-1]...)))
		}
		for _, o := range others {
			if lv.Equals(o, nil) || o.Equals(lv, nil) || key == string(px.ToKey(o)) {
				bad("Equals/ToKey", "same as "+arrStr(o), "different")
			}
		}
	}); e != nil {
		fs.add(class+"-fault", "step %d %s: runtime fault in a read of %s: %v", si, st, arrStr(l), e)
	}
}

// flattenTexts: the reference of Flatten on canonical texts (an array text is `(a …)`)
func flattenTexts(vs []string) []string {
	out := []string{}
	for _, v := range vs {
		if strings.HasPrefix(v, "(a") { // an array text (`(h)`, the empty hash, is a leaf)
			xs, err := sx.Parse(v)
			if err != nil || len(xs) != 1 {
				panic("flattenTexts: " + v)
			}
			kids := []string{}
			for _, k := range xs[0].Args() {
				kids = append(kids, k.String())
			}
			out = append(out, flattenTexts(kids)...)
		} else {
			out = append(out, v)
		}
	}
	return out
}

func execArr(steps []sx.Sexp, implOnly bool) core.Result {
	type aslot struct {
		a    px.List
		ref  []string
		last string
	}
	pool := []*aslot{}
	var out []string
	var fs failures
	tags := map[string]bool{}
	changed := false
	for _, st := range steps {
		a := st.Args()
		ok := true
		switch st.Tag() {
		case "lit":
			for _, v := range a {
				if _, o := valStr(v); !o {
					ok = false
				}
			}
		case "entry": // a hash entry as a list (implementation-only lines: the model has arrays only)
			ok = implOnly && len(a) == 2
			for _, v := range a {
				if _, o := valStr(v); !o {
					ok = false
				}
			}
		case "nest": // an array whose elements are lists of the pool (arrays and entries); implementation-only
			ok = implOnly
			for _, v := range a {
				ok = ok && isIntAtom(v) && v.MustInt() >= 0
			}
		case "ints": // types.WrapInts; implementation-only
			ok = implOnly
			for _, v := range a {
				ok = ok && isIntAtom(v)
			}
		case "strs": // types.WrapStrings; implementation-only
			ok = implOnly
			for _, v := range a {
				ok = ok && isKeyAtom(v)
			}
		case "add", "delete":
			ok = len(a) == 2 && isIntAtom(a[0]) && a[0].MustInt() >= 0
			if ok {
				_, ok = valStr(a[1])
			}
		case "addAll", "deleteAll":
			ok = len(a) == 2 && isIntAtom(a[0]) && isIntAtom(a[1]) && a[0].MustInt() >= 0 && a[1].MustInt() >= 0
		case "at":
			ok = len(a) == 2 && isIntAtom(a[0]) && isIntAtom(a[1]) && a[0].MustInt() >= 0
		case "slice":
			ok = len(a) == 3 && isIntAtom(a[0]) && isIntAtom(a[1]) && isIntAtom(a[2]) && a[0].MustInt() >= 0 && a[1].MustInt() >= 0 && a[2].MustInt() >= 0
		case "unique", "sort", "flatten", "len":
			ok = len(a) == 1 && isIntAtom(a[0]) && a[0].MustInt() >= 0
		case "eachSlice":
			ok = len(a) == 2 && isIntAtom(a[0]) && isIntAtom(a[1]) && a[0].MustInt() >= 0
		case "find":
			ok = len(a) == 2 && isIntAtom(a[0]) && a[0].MustInt() >= 0
			if ok {
				_, ok = valStr(a[1])
			}
		default:
			ok = false
		}
		if !ok {
			return core.Result{Out: "bad-op", Pred: "n/a"}
		}
	}
	refStr := refSeqStr
	for si, st := range steps {
		a := st.Args()
		op := st.Tag()
		tags["arr:"+op] = true
		res := op
		var made *aslot
		var fault interface{}
		slot := func(i int) *aslot {
			n := int(a[i].MustInt())
			if n >= len(pool) {
				return nil
			}
			return pool[n]
		}
		mk := func(l px.List, r []string) {
			made = &aslot{a: l, ref: r}
			pool = append(pool, made)
		}
		switch op {
		case "lit":
			vs := []px.Value{}
			r := []string{}
			for _, v := range a {
				vs = append(vs, valOf(v))
				s, _ := valStr(v)
				r = append(r, s)
			}
			mk(types.WrapValues(vs), r)
			changed = changed || len(vs) > 0
		case "entry":
			k, _ := valStr(a[0])
			v, _ := valStr(a[1])
			mk(types.WrapHashEntry(valOf(a[0]), valOf(a[1])), []string{k, v})
			changed = true
		case "nest":
			vs := []px.Value{}
			r := []string{}
			for i := range a {
				s := slot(i)
				if s == nil {
					res = "bad-ref"
					break
				}
				vs = append(vs, s.a.(px.Value))
				r = append(r, refStr(s.ref))
			}
			if res != "bad-ref" {
				mk(types.WrapValues(vs), r)
				changed = changed || len(vs) > 0
			}
		case "ints":
			is := []int{}
			r := []string{}
			for _, v := range a {
				is = append(is, int(v.MustInt()))
				r = append(r, strconv.FormatInt(v.MustInt(), 10))
			}
			mk(types.WrapInts(is), r)
			changed = changed || len(is) > 0
		case "strs":
			ss := []string{}
			r := []string{}
			for _, v := range a {
				ss = append(ss, v.MustStr())
				r = append(r, v.Atom)
			}
			mk(types.WrapStrings(ss), r)
			changed = changed || len(ss) > 0
		case "add":
			s := slot(0)
			if s == nil {
				res = "bad-ref"
				break
			}
			v, _ := valStr(a[1])
			var l px.List
			fault = safely(func() { l = s.a.Add(valOf(a[1])) })
			if fault == nil {
				mk(l, append(append([]string{}, s.ref...), v))
				changed = true
			}
		case "addAll":
			s, t := slot(0), slot(1)
			if s == nil || t == nil {
				res = "bad-ref"
				break
			}
			var l px.List
			fault = safely(func() { l = s.a.AddAll(t.a) })
			if fault == nil {
				mk(l, append(append([]string{}, s.ref...), t.ref...))
				changed = changed || len(t.ref) > 0
			}
		case "delete", "deleteAll":
			s := slot(0)
			if s == nil {
				res = "bad-ref"
				break
			}
			drop := map[string]bool{}
			var l px.List
			if op == "delete" {
				v, _ := valStr(a[1])
				drop[v] = true
				fault = safely(func() { l = s.a.Delete(valOf(a[1])) })
			} else {
				t := slot(1)
				if t == nil {
					res = "bad-ref"
					break
				}
				for _, v := range t.ref {
					drop[v] = true
				}
				fault = safely(func() { l = s.a.DeleteAll(t.a) })
			}
			if fault == nil {
				r := []string{}
				for _, v := range s.ref {
					if !drop[v] {
						r = append(r, v)
					}
				}
				changed = changed || len(r) != len(s.ref)
				mk(l, r)
			}
		case "unique":
			s := slot(0)
			if s == nil {
				res = "bad-ref"
				break
			}
			var l px.List
			fault = safely(func() { l = s.a.Unique() })
			if fault == nil {
				r := []string{}
				seen := map[string]bool{}
				for _, v := range s.ref {
					if !seen[v] {
						seen[v] = true
						r = append(r, v)
					}
				}
				changed = changed || len(r) != len(s.ref)
				mk(l, r)
			}
		case "slice":
			s := slot(0)
			if s == nil {
				res = "bad-ref"
				break
			}
			i, j := int(a[1].MustInt()), int(a[2].MustInt())
			if !(i <= j && j <= s.a.Len()) {
				res = "skip" // out-of-range bounds are a caller error (Go slice bounds), outside the property
				break
			}
			if j > len(s.ref) {
				fs.add("arr-len", "step %d %s: the array is longer than its reference %s", si, st, refStr(s.ref))
				break
			}
			var l px.List
			fault = safely(func() { l = s.a.Slice(i, j) })
			if fault == nil {
				mk(l, append([]string{}, s.ref[i:j]...))
			}
		case "sort":
			s := slot(0)
			if s == nil {
				res = "bad-ref"
				break
			}
			var l px.List
			sl, sortable := s.a.(px.SortableList)
			if !sortable {
				if _, isEntry := s.a.(*types.HashEntry); isEntry {
					res = op + "=unsupported"
					break
				}
			}
			fault = safely(func() { l = sl.Sort(func(x, y px.Value) bool { return seqText(x) < seqText(y) }) })
			if fault == nil {
				r := append([]string{}, s.ref...)
				sort.Strings(r)
				changed = changed || !sameStrings(r, s.ref)
				mk(l, r)
			}
		case "flatten":
			s := slot(0)
			if s == nil {
				res = "bad-ref"
				break
			}
			var l px.List
			fault = safely(func() { l = s.a.Flatten() })
			if fault == nil {
				r := flattenTexts(s.ref)
				changed = changed || !sameStrings(r, s.ref)
				mk(l, r)
			}
		case "len":
			s := slot(0)
			if s == nil {
				res = "bad-ref"
				break
			}
			res = op + "=" + strconv.Itoa(s.a.Len())
			if s.a.Len() != len(s.ref) {
				fs.add("arr-len", "step %d %s: impl %s reference %d", si, st, res, len(s.ref))
			}
		case "find":
			s := slot(0)
			if s == nil {
				res = "bad-ref"
				break
			}
			want, _ := valStr(a[1])
			wv := valOf(a[1])
			fault = safely(func() {
				if v, ok := s.a.Find(func(e px.Value) bool { return e.Equals(wv, nil) }); ok {
					res = op + "=" + seqText(v)
				} else {
					res = op + "=_"
				}
			})
			exp := op + "=_"
			for _, v := range s.ref {
				if v == want {
					exp = op + "=" + v
					break
				}
			}
			if fault == nil && res != exp {
				fs.add("arr-find", "step %d %s: impl %s reference %s", si, st, res, exp)
			}
		case "eachSlice":
			s := slot(0)
			if s == nil {
				res = "bad-ref"
				break
			}
			n := int(a[1].MustInt())
			chunks := []string{}
			e := safely(func() { s.a.EachSlice(n, func(c px.List) { chunks = append(chunks, arrStr(c)) }) })
			exp := []string{}
			if n >= 1 {
				for i := 0; i < len(s.ref); i += n {
					j := i + n
					if j > len(s.ref) {
						j = len(s.ref)
					}
					exp = append(exp, refStr(s.ref[i:j]))
				}
			}
			switch {
			case e != nil && n < 1 && strings.Contains(fmt.Sprint(e), "EachSlice"):
				res = op + "=illegal" // a slice size below one is a reported illegal argument
			case e != nil:
				fault = e
			default:
				res = op + "=[" + strings.Join(chunks, " ") + "]"
				if n < 1 {
					fs.add("arr-eachSlice", "step %d %s: a slice size below one was accepted", si, st)
				} else if !sameStrings(chunks, exp) {
					fs.add("arr-eachSlice", "step %d %s: impl %s reference %s", si, st, res, strings.Join(exp, " "))
				}
			}
		case "at":
			s := slot(0)
			if s == nil {
				res = "bad-ref"
				break
			}
			i := int(a[1].MustInt())
			fault = safely(func() { res = op + "=" + seqText(s.a.At(i)) })
			exp := op + "=_"
			if i >= 0 && i < len(s.ref) {
				exp = op + "=" + s.ref[i]
			}
			if fault == nil && res != exp {
				fs.add("arr-at", "step %d %s: impl %s reference %s", si, st, res, exp)
			}
		}
		if unsupported(fault) && len(a) > 0 && isIntAtom(a[0]) {
			if s := slot(0); s != nil {
				if _, isEntry := s.a.(*types.HashEntry); isEntry { // an entry offers no growing or shrinking: declined, not wrong
					fault = nil
					res = op + "=unsupported"
				}
			}
		}
		if fault != nil {
			out = append(out, res+"=fault")
			fs.add("arr-fault", "step %d %s: runtime fault %v", si, st, fault)
			break
		}
		for _, s := range pool {
			if _, isEntry := s.a.(*types.HashEntry); isEntry && len(s.ref) == 2 {
				seqReads(s.a, s.ref, "entry", &fs, si, st)
			} else if s == made && !isEntry && sameStrings(seqElems(s.a), s.ref) {
				seqReads(s.a, s.ref, "arr", &fs, si, st) // the array this step made (when it is the right one: else reported below)
			}
		}
		if made == nil {
			out = append(out, res)
		} else {
			out = append(out, res+" "+arrStr(made.a)+" N"+strconv.Itoa(made.a.Len()))
		}
		for pi, s := range pool {
			gs := arrStr(s.a)
			if gs != refStr(s.ref) || s.a.Len() != len(s.ref) {
				cl := "arr-" + op
				if s != made {
					cl = "arr-receiver-changed"
					if s.last == gs {
						cl = ""
					}
				}
				if cl != "" {
					fs.add(cl, "step %d %s: pool[%d] impl %s reference %s", si, st, pi, gs, refStr(s.ref))
				}
			}
			s.last = gs
		}
	}
	finals := []string{}
	for _, s := range pool {
		finals = append(finals, arrStr(s.a))
	}
	r := core.Result{Out: strings.Join(out, " | ") + " || " + strings.Join(finals, " ; "), Pred: "ok", NonTrivial: changed}
	for t := range tags {
		r.Tags = append(r.Tags, t)
	}
	if f := fs.pick(); f != nil {
		r.Pred = "FAIL " + f.class + " " + strings.Replace(f.detail, "\t", " ", -1)
	}
	return r
}

func exec(c px.Context, op string, args []sx.Sexp) core.Result {
	for _, a := range args {
		if !a.IsList || a.Tag() == "" {
			return core.Result{Out: "bad-op", Pred: "n/a"}
		}
	}
	switch op {
	case "sh":
		return execSH(args)
	case "hash":
		return execHash(args, false)
	case "ehash": // emitted as `@ehash`: implementation-only
		return execHash(args, true)
	case "arr":
		return execArr(args, false)
	case "earr": // emitted as `@earr`: implementation-only
		return execArr(args, true)
	}
	return core.Result{Out: "bad-op", Pred: "FAIL harness-bad-op " + op}
}

// ==== generators ===========================================================================================================

func k(s string) string { return sx.Str(s).Atom }

func shAlphabet() []string {
	ops := []string{}
	for _, key := range []string{"a", "b", "c"} {
		for _, v := range []string{"1", "2"} {
			ops = append(ops, "(put "+k(key)+" "+v+")")
		}
		ops = append(ops, "(delete "+k(key)+")")
		ops = append(ops, "(cia "+k(key)+" 3)")
	}
	ops = append(ops, "(merge ("+k("a")+" 4) ("+k("c")+" 5))", "(merge ("+k("b")+" 4))", "(copy)", "(freeze)", "(get "+k("c")+")")
	return ops
}

func hashAlphabet() []string {
	keys := []string{"1", k("1"), "(a 1)", k("a")}
	ops := []string{}
	for _, key := range keys {
		for _, v := range []string{"1", "2", "u"} { // `u` = undef: a present key whose value is undef is present
			ops = append(ops, "(put L "+key+" "+v+")")
		}
		ops = append(ops, "(delete L "+key+")")
	}
	ops = append(ops, "(deleteAll L (1 "+k("1")+"))", "(deleteAll L ((a 1) "+k("a")+" 1))", "(merge L 0)", "(merge 1 L)", "(get 0 (a 1))", "(get L "+k("1")+")",
		"(slice L 1 2)", "(select L ("+k("1")+" (a 1)))", "(sort L)")
	return ops
}

// sequences: every sequence over the alphabet of exactly length n (shorter ones are their prefixes, and every
// step's observation is printed)
func sequences(alpha []string, n int, emit func([]string)) {
	cur := make([]string, n)
	var rec func(i int)
	rec = func(i int) {
		if i == n {
			emit(cur)
			return
		}
		for _, o := range alpha {
			cur[i] = o
			rec(i + 1)
		}
	}
	rec(0)
}

func randKey(r *rand.Rand) string {
	return k([]string{"a", "b", "c", "d", "e", "", "a b", "é"}[r.Intn(8)])
}

func randSHPairs(r *rand.Rand) string {
	n := r.Intn(4)
	ps := []string{}
	for i := 0; i < n; i++ {
		ps = append(ps, "("+randKey(r)+" "+strconv.Itoa(r.Intn(3))+")")
	}
	return strings.Join(ps, " ")
}

func randSH(r *rand.Rand, n int) string {
	ops := []string{}
	for i := 0; i < n; i++ {
		switch x := r.Intn(100); {
		case x < 35:
			ops = append(ops, "(put "+randKey(r)+" "+strconv.Itoa(r.Intn(3))+")")
		case x < 60:
			ops = append(ops, "(delete "+randKey(r)+")")
		case x < 68:
			ops = append(ops, "(get "+randKey(r)+")")
		case x < 76:
			ops = append(ops, "(cia "+randKey(r)+" "+strconv.Itoa(3+r.Intn(2))+")")
		case x < 82:
			ops = append(ops, "(copy)")
		case x < 88:
			ops = append(ops, "(merge "+randSHPairs(r)+")")
		case x < 92:
			ops = append(ops, "(putall "+randSHPairs(r)+")")
		case x < 93:
			ops = append(ops, "(equals)")
		case x < 94:
			ops = append(ops, "(views)")
		case x < 95:
			ops = append(ops, "(swap)")
		case x < 96:
			ops = append(ops, "(empty)")
		default:
			// freeze late and rarely, and usually copy right afterwards so that the history goes on
			ops = append(ops, "(freeze)")
			if r.Intn(4) != 0 {
				ops = append(ops, "(put "+randKey(r)+" 7)", "(delete "+randKey(r)+")", "(copy)")
			}
		}
	}
	return "sh " + strings.Join(ops, " ")
}

var hashKeys = []string{"1", "x31", "(a 1)", "x61", "2", "(a)", "(a 1 x31)", "(a (a 1))", "x62", "0"}

func randHKey(r *rand.Rand) string {
	if r.Intn(4) == 0 {
		return hashKeys[r.Intn(len(hashKeys))]
	}
	return hashKeys[r.Intn(4)]
}

// falsy: undef and the values that look like "nothing" (a lookup that tests the VALUE instead of the presence of the key
// takes a present key for an absent one)
var falsy = []string{"u", "u", "u", "bf", "bt", "0", "x", "(a)", "(h)", "d"}

func randHVal(r *rand.Rand) string {
	switch x := r.Intn(12); {
	case x < 2:
		return randHKey(r)
	case x < 5:
		return falsy[r.Intn(len(falsy))]
	}
	return strconv.Itoa(r.Intn(3))
}

func randPairs(r *rand.Rand, unique bool) string {
	n := r.Intn(5)
	ps := []string{}
	seen := map[string]bool{}
	for i := 0; i < n; i++ {
		key := randHKey(r)
		if unique && seen[key] {
			continue
		}
		seen[key] = true
		ps = append(ps, "("+key+" "+randHVal(r)+")")
	}
	return strings.Join(ps, " ")
}

// randHash: a history over a growing pool; `dups` = literals may repeat a key
func randHash(r *rand.Rand, n int, dups bool, mutable bool) string {
	ops := []string{"(wrap " + randPairs(r, true) + ")"}
	size := 1
	ref := func() string {
		if r.Intn(2) == 0 {
			return strconv.Itoa(size - 1)
		}
		return strconv.Itoa(r.Intn(size))
	}
	for i := 0; i < n; i++ {
		switch x := r.Intn(100); {
		case x < 10:
			ops = append(ops, "("+[]string{"wrap", "parse", "parsea", "build"}[r.Intn(4)]+" "+randPairs(r, !dups)+")")
			size++
		case x < 35:
			ops = append(ops, "(put "+ref()+" "+randHKey(r)+" "+randHVal(r)+")")
			size++
		case x < 50:
			ops = append(ops, "(merge "+ref()+" "+ref()+")")
			size++
		case x < 70:
			ops = append(ops, "(delete "+ref()+" "+randHKey(r)+")")
			size++
		case x < 82:
			ks := []string{}
			for j := r.Intn(4); j > 0; j-- {
				ks = append(ks, randHKey(r))
			}
			ops = append(ops, "(deleteAll "+ref()+" ("+strings.Join(ks, " ")+"))")
			size++
		case x < 85:
			ops = append(ops, "(get "+ref()+" "+randHKey(r)+")")
		case x < 87:
			ops = append(ops, "(get4 "+ref()+" "+[]string{"x31", "x61", "x62", "x"}[r.Intn(4)]+")")
		case x < 92:
			ks := []string{}
			for j := r.Intn(4); j > 0; j-- {
				ks = append(ks, randHKey(r))
			}
			switch r.Intn(6) {
			case 0:
				ops = append(ops, "(select "+ref()+" ("+strings.Join(ks, " ")+"))")
				size++
			case 1:
				ops = append(ops, "(reject "+ref()+" ("+strings.Join(ks, " ")+"))")
				size++
			case 2:
				ops = append(ops, "(sort "+ref()+")")
				size++
			case 3:
				ops = append(ops, "(eachSlice "+ref()+" "+strconv.Itoa(r.Intn(5)-1)+")")
			case 4:
				if dups && r.Intn(3) == 0 {
					ops = append(ops, "(mapKeys "+ref()+" "+randHKey(r)+")")
					size++
				} else {
					ops = append(ops, "(eachSlice "+ref()+" 2)")
				}
			default:
				// slice with bounds that are usually valid for small hashes; an invalid one is skipped on both sides, so
				// address the result only through `get` right afterwards
				i := r.Intn(3)
				ops = append(ops, "(slice "+ref()+" "+strconv.Itoa(i)+" "+strconv.Itoa(i+r.Intn(3))+")")
			}
		default:
			if !mutable {
				ops = append(ops, "(get "+ref()+" "+randHKey(r)+")")
				break
			}
			switch r.Intn(3) {
			case 0:
				ops = append(ops, "(mnew)")
				size++
			case 1:
				ops = append(ops, "(mnew)", "(mput "+strconv.Itoa(size)+" "+randHKey(r)+" "+randHVal(r)+")", "(mput "+strconv.Itoa(size)+" "+randHKey(r)+" "+randHVal(r)+")")
				size++
			default:
				ops = append(ops, "(mnew)", "(mputall "+strconv.Itoa(size)+" "+ref()+")", "(mput "+strconv.Itoa(size)+" "+randHKey(r)+" "+randHVal(r)+")", "(get "+strconv.Itoa(size)+" "+randHKey(r)+")")
				size++
			}
		}
	}
	return "hash " + strings.Join(ops, " ")
}

// randEntryArr: a history over arrays and hash entries (entries as receivers and as arguments)
func randEntryArr(r *rand.Rand, n int) string {
	l := randArr(r, n)
	steps, err := sx.Parse("(" + strings.TrimPrefix(l, "arr ") + ")")
	if err != nil {
		panic(err)
	}
	out := []string{}
	for i, st := range steps[0].List {
		if st.Tag() == "lit" && (i == 0 || r.Intn(2) == 0) {
			k, v := randHKey(r), randHKey(r)
			if r.Intn(4) == 0 {
				v = k
			}
			out = append(out, "(entry "+k+" "+v+")")
			continue
		}
		if st.Tag() == "lit" && i > 1 {
			switch r.Intn(4) {
			case 0:
				refs := []string{}
				for j := r.Intn(4); j > 0; j-- {
					refs = append(refs, strconv.Itoa(r.Intn(i)))
				}
				out = append(out, "("+strings.TrimSpace("nest "+strings.Join(refs, " "))+")")
				continue
			case 1:
				vs := []string{}
				for j := r.Intn(4); j > 0; j-- {
					vs = append(vs, strconv.Itoa(r.Intn(3)))
				}
				out = append(out, "("+strings.TrimSpace("ints "+strings.Join(vs, " "))+")")
				continue
			case 2:
				vs := []string{}
				for j := r.Intn(4); j > 0; j-- {
					vs = append(vs, randKey(r))
				}
				out = append(out, "("+strings.TrimSpace("strs "+strings.Join(vs, " "))+")")
				continue
			}
		}
		out = append(out, st.String())
	}
	return "@earr " + strings.Join(out, " ")
}

// randGoMapHash: a hash history whose literals come from Go maps
func randGoMapHash(r *rand.Rand, n int) string {
	l := randHash(r, n, false, false)
	steps, err := sx.Parse("(" + strings.TrimPrefix(l, "hash ") + ")")
	if err != nil {
		panic(err)
	}
	out := []string{}
	for i, st := range steps[0].List {
		switch st.Tag() {
		case "wrap", "parse", "parsea", "build":
			if i == 0 || r.Intn(3) > 0 {
				ctor := []string{"gomapv", "gomapi", "gomaps"}[r.Intn(3)]
				ps := []string{}
				for j := r.Intn(5); j > 0; j-- {
					v := randHVal(r)
					if ctor == "gomaps" {
						v = randKey(r)
					}
					ps = append(ps, "("+randKey(r)+" "+v+")")
				}
				out = append(out, "("+ctor+" "+strings.Join(ps, " ")+")")
				continue
			}
		}
		out = append(out, st.String())
	}
	return "@ehash " + strings.Join(out, " ")
}

// arrAlphabet: the small universe of array histories (`L` = the array made by the previous step)
func arrAlphabet() []string {
	ops := []string{}
	for _, v := range []string{"1", k("1"), "(a 1)"} {
		ops = append(ops, "(add L "+v+")", "(delete L "+v+")")
	}
	return append(ops, "(addAll L 0)", "(addAll 0 L)", "(addAll L L)", "(deleteAll L 0)", "(deleteAll 0 L)", "(deleteAll L 1)", "(slice L 1 2)", "(slice L 0 1)",
		"(unique L)", "(sort L)", "(eachSlice L 2)", "(flatten L)", "(find L (a 1))", "(at L 1)", "(len L)")
}

// entryArrAlphabet: arrays among whose elements are hash entries, the integer / string wrappers (implementation only)
func entryArrAlphabet() []string {
	return []string{"(nest 0 1)", "(nest 1 2 1 3)", "(nest L)", "(nest)", "(flatten L)", "(unique L)", "(delete L (a 1 " + k("1") + "))", "(delete L 2)", "(deleteAll L 0)",
		"(deleteAll L 3)", "(addAll L 1)", "(addAll 0 L)", "(add L (a 2 2))", "(ints 2 1 2)", "(strs " + k("1") + " " + k("a") + ")", "(sort L)", "(eachSlice L 2)",
		"(find L (a 2 2))", "(slice L 0 1)"}
}

// listHashAlphabet: the List forms of Merge, the other constructors, Entries / Unique / Delete on a mutable hash
// (implementation only).  pool[0] = a mutable hash {1=>5, 'a'=>6}, pool[1] = {1=>1, '1'=>2, [1]=>3}
func listHashAlphabet() []string {
	return []string{"(add L 1 u)", "(add L " + k("a") + " 9)", "(adda L (a 1) 9)", "(adda L 2 9)", "(addAll L 1)", "(addAll 1 L)", "(addAll L 0)",
		"(addAllArr L (" + k("a") + " 7) (1 8))", "(addAllFlat L (" + k("1") + " 7) (2 8))", "(addAllArr L)", "(mergeom L 1)", "(mergeom 1 L)", "(mergeom 0 L)",
		"(entries L)", "(unique L)", "(entries 0)", "(unique 0)", "(delete 0 1)", "(delete 0 2)", "(deleteAll 0 (" + k("a") + " 1))", "(deleteAll 0 ())",
		"(mput 0 1 u)", "(mput 0 2 bf)", "(mputall 0 L)", "(fromArr (1 u) (" + k("1") + " 2))", "(fromFlat (1 1) ((a 1) 2))", "(indexed 5 6)",
		"(wrap2 (" + k("a") + " 1) (1 2))", "(shv (" + k("a") + " 1) (" + k("b") + " u) (" + k("a") + " 3))", "(parsetop (" + k("a") + " (a 1 2)))",
		"(parsemix (1 1) (" + k("1") + " 2) (1 3) (" + k("a") + " 4))", "(delete L 1)", "(get L 1)"}
}

// emitOver: every sequence of length n over the alphabet after the base steps (which fill `size` pool slots); noSlot tells
// which steps add no slot to the pool (or may add none)
func emitOver(g *core.G, prefix, base string, size0 int, alpha []string, n int, noSlot func(string) bool) {
	sequences(alpha, n, func(ops []string) {
		out := []string{base}
		size := size0
		for _, o := range ops {
			out = append(out, strings.Replace(o, " L", " "+strconv.Itoa(size-1), -1))
			if !noSlot(o) {
				size++
			}
		}
		g.Emit(prefix + " " + strings.Join(out, " "))
	})
}

func hasAnyPrefix(o string, ps ...string) bool {
	for _, p := range ps {
		if strings.HasPrefix(o, p) {
			return true
		}
	}
	return false
}

// randListHash: a hash history in which the constructors, puts, merges and lookups are (mostly) replaced by their List /
// foreign-map / other-constructor forms (implementation only)
func randListHash(r *rand.Rand, n int) string {
	l := randHash(r, n, false, true)
	steps, err := sx.Parse("(" + strings.TrimPrefix(l, "hash ") + ")")
	if err != nil {
		panic(err)
	}
	out := []string{}
	for _, st := range steps[0].List {
		a := st.Args()
		switch st.Tag() {
		case "wrap", "parse", "parsea", "build":
			if r.Intn(4) > 0 {
				ctor := []string{"fromArr", "fromFlat", "wrap2", "shv", "indexed", "parsetop", "parsemix"}[r.Intn(7)]
				ps := []string{}
				switch ctor {
				case "shv":
					for j := r.Intn(5); j > 0; j-- {
						ps = append(ps, "("+randKey(r)+" "+randHVal(r)+")")
					}
				case "indexed":
					for j := r.Intn(4); j > 0; j-- {
						ps = append(ps, randHVal(r))
					}
				case "parsetop":
					ps = append(ps, "("+randHKey(r)+" "+randHVal(r)+")")
				case "parsemix":
					ps = append(ps, "("+randHKey(r)+" "+randHVal(r)+")", "("+randHKey(r)+" "+randHVal(r)+")")
					if more := randPairs(r, r.Intn(8) > 0); more != "" {
						ps = append(ps, more)
					}
				default:
					if p := randPairs(r, r.Intn(10) > 0); p != "" {
						ps = append(ps, p)
					}
				}
				out = append(out, "("+strings.TrimSpace(ctor+" "+strings.Join(ps, " "))+")")
				continue
			}
		case "put":
			if r.Intn(3) > 0 {
				out = append(out, "("+[]string{"add", "adda"}[r.Intn(2)]+" "+a[0].String()+" "+a[1].String()+" "+a[2].String()+")")
				continue
			}
		case "merge":
			switch r.Intn(5) {
			case 0:
				out = append(out, "(addAll "+a[0].String()+" "+a[1].String()+")")
				continue
			case 1:
				out = append(out, "(mergeom "+a[0].String()+" "+a[1].String()+")")
				continue
			case 2:
				out = append(out, "("+strings.TrimSpace("addAllArr "+a[0].String()+" "+randPairs(r, true))+")")
				continue
			case 3:
				out = append(out, "("+strings.TrimSpace("addAllFlat "+a[0].String()+" "+randPairs(r, true))+")")
				continue
			}
		case "get":
			if r.Intn(2) == 0 {
				out = append(out, "("+[]string{"entries", "unique"}[r.Intn(2)]+" "+a[0].String()+")")
				continue
			}
		}
		out = append(out, st.String())
	}
	return "@ehash " + strings.Join(out, " ")
}

// randMutableViews: a mutable hash whose Delete / DeleteAll / Entries / Unique / Merge results must stay what they were
// while the builder goes on changing (implementation only)
func randMutableViews(r *rand.Rand, n int) string {
	ops := []string{"(mnew)"}
	size := 1
	for i := r.Intn(3); i > 0; i-- {
		ops = append(ops, "(mput 0 "+randHKey(r)+" "+randHVal(r)+")")
	}
	for i := 0; i < n; i++ {
		switch x := r.Intn(100); {
		case x < 35:
			ops = append(ops, "(mput 0 "+randHKey(r)+" "+randHVal(r)+")")
		case x < 50:
			ops = append(ops, "(delete 0 "+randHKey(r)+")")
			size++
		case x < 62:
			ks := []string{}
			for j := r.Intn(3); j > 0; j-- {
				ks = append(ks, randHKey(r))
			}
			ops = append(ops, "(deleteAll 0 ("+strings.Join(ks, " ")+"))")
			size++
		case x < 72:
			ops = append(ops, "("+[]string{"entries", "unique"}[r.Intn(2)]+" 0)")
			size++
		case x < 80:
			ops = append(ops, "("+[]string{"merge", "mergeom"}[r.Intn(2)]+" 0 "+strconv.Itoa(r.Intn(size))+")")
			size++
		case x < 86:
			ops = append(ops, "(mputall 0 "+strconv.Itoa(r.Intn(size))+")")
		case x < 92:
			ops = append(ops, "(wrap "+randPairs(r, true)+")")
			size++
		case x < 96:
			// (a slice with bounds beyond the length is skipped: no slot; later references may then answer bad-ref)
			ops = append(ops, []string{"(slice 0 0 " + strconv.Itoa(r.Intn(3)) + ")", "(sort 0)", "(select 0 (" + randHKey(r) + " " + randHKey(r) + "))",
				"(reject 0 (" + randHKey(r) + "))"}[r.Intn(4)])
			size++
		default:
			ops = append(ops, "(get "+strconv.Itoa(r.Intn(size))+" "+randHKey(r)+")")
		}
	}
	return "@ehash " + strings.Join(ops, " ")
}

func randArr(r *rand.Rand, n int) string {
	vals := func() string {
		vs := []string{}
		for j := r.Intn(5); j > 0; j-- {
			vs = append(vs, randHKey(r))
		}
		return strings.Join(vs, " ")
	}
	ops := []string{"(lit " + vals() + ")"}
	size := 1
	ref := func() string {
		if r.Intn(2) == 0 {
			return strconv.Itoa(size - 1)
		}
		return strconv.Itoa(r.Intn(size))
	}
	for i := 0; i < n; i++ {
		switch x := r.Intn(100); {
		case x < 10:
			ops = append(ops, "(lit "+vals()+")")
			size++
		case x < 35:
			ops = append(ops, "(add "+ref()+" "+randHKey(r)+")")
			size++
		case x < 50:
			ops = append(ops, "(addAll "+ref()+" "+ref()+")")
			size++
		case x < 62:
			ops = append(ops, "(delete "+ref()+" "+randHKey(r)+")")
			size++
		case x < 70:
			ops = append(ops, "(deleteAll "+ref()+" "+ref()+")")
			size++
		case x < 80:
			i := r.Intn(4)
			ops = append(ops, "(slice "+ref()+" "+strconv.Itoa(i)+" "+strconv.Itoa(i+r.Intn(3))+")")
			size++ // may be skipped; later refs beyond the pool answer bad-ref on both sides
		case x < 84:
			ops = append(ops, "(unique "+ref()+")")
			size++
		case x < 88:
			ops = append(ops, "(sort "+ref()+")")
			size++
		case x < 91:
			ops = append(ops, "(flatten "+ref()+")")
			size++
		case x < 94:
			ops = append(ops, "(eachSlice "+ref()+" "+strconv.Itoa(r.Intn(5)-1)+")")
		case x < 96:
			ops = append(ops, "(find "+ref()+" "+randHKey(r)+")")
		case x < 97:
			ops = append(ops, "(len "+ref()+")")
		default:
			ops = append(ops, "(at "+ref()+" "+strconv.Itoa(r.Intn(7)-1)+")")
		}
	}
	return "arr " + strings.Join(ops, " ")
}

func gen(g *core.G) {
	n := 4
	if g.Thorough() {
		n = 5
	}
	// 1. exhaustive small universes.  StringHash: every sequence of length 4 over the full alphabet (17 operations); the
	// thorough tier adds every sequence of length 5 over a 12-operation sub-alphabet (1.4 million lines of length 5 over
	// the full alphabet made the run memory-bound: ops timed out under load although nothing was wrong)
	sequences(shAlphabet(), 4, func(ops []string) { g.Emit("sh " + strings.Join(ops, " ")) })
	if g.Thorough() {
		small := []string{"(put " + k("a") + " 1)", "(put " + k("a") + " 2)", "(put " + k("b") + " 1)", "(put " + k("c") + " 1)",
			"(delete " + k("a") + ")", "(delete " + k("b") + ")", "(delete " + k("c") + ")", "(cia " + k("a") + " 3)", "(cia " + k("c") + " 3)",
			"(merge (" + k("a") + " 4) (" + k("c") + " 5))", "(copy)", "(freeze)"}
		sequences(small, 5, func(ops []string) { g.Emit("sh " + strings.Join(ops, " ")) })
	}
	halpha := hashAlphabet()
	sequences(halpha, n-1, func(ops []string) {
		// pool[0] = {1=>1, '1'=>undef, [1]=>false}; `L` = the hash made by the previous step
		out := []string{"(wrap (1 1) (" + k("1") + " u) ((a 1) bf))"}
		size := 1
		for _, o := range ops {
			made := !strings.HasPrefix(o, "(get") && !(strings.HasPrefix(o, "(merge 1") && size < 2) && !strings.HasPrefix(o, "(slice")
			out = append(out, strings.Replace(o, " L", " "+strconv.Itoa(size-1), -1))
			if made {
				size++
			}
		}
		g.Emit("hash " + strings.Join(out, " "))
	})
	// literals with every key sequence of length ≤ 3 over the four keys (repeated keys included), by every constructor
	keys := []string{"1", k("1"), "(a 1)", k("a")}
	for _, ctor := range []string{"wrap", "parse", "parsea", "build"} {
		for l := 0; l <= 3; l++ {
			sequences(keys, l, func(ks []string) {
				ps := []string{}
				for i, key := range ks {
					ps = append(ps, "("+key+" "+[]string{"u", "2", "bf"}[i]+")")
				}
				g.Emit("hash (" + ctor + " " + strings.Join(ps, " ") + ") (put 0 " + keys[0] + " 9) (delete 0 " + keys[1] + ") (merge 0 0)")
			})
		}
	}
	// every operation (and every pair of operations) on hashes that hold two equal keys (known finding C09-literal-dup-keys):
	// the predicate failure is explained by the finding, model and implementation must still agree on every step
	dupOps := []string{"(put L 1 9)", "(put L " + k("a") + " 9)", "(merge L 0)", "(merge 0 L)", "(delete L 1)", "(delete L " + k("1") + ")",
		"(deleteAll L (1 " + k("1") + "))", "(get L 1)", "(get4 L " + k("1") + ")", "(slice L 1 3)", "(slice L 0 2)", "(select L (1))",
		"(reject L (" + k("1") + "))", "(sort L)", "(eachSlice L 2)", "(mapKeys L " + k("1") + ")", "(mnew) (mputall N L) (mput N 1 7) (get N 1)"}
	for _, base := range []string{"(wrap (1 1) (" + k("1") + " 2) (1 3))", "(parse (" + k("1") + " 1) (" + k("1") + " 2) ((a 1) 3))",
		"(build (1 1) (1 2) (1 3) (" + k("a") + " 4))", "(wrap (1 1) (" + k("1") + " 2)) (mapKeys 0 (a 1))"} {
		sequences(dupOps, 2, func(ops []string) {
			out := []string{base}
			size := strings.Count(base, ") (mapKeys") + 1
			for _, o := range ops {
				made := !strings.HasPrefix(o, "(get") && !strings.HasPrefix(o, "(eachSlice") && !strings.HasPrefix(o, "(slice") && !strings.HasPrefix(o, "(sort")
				o = strings.Replace(o, " L", " "+strconv.Itoa(size-1), -1)
				o = strings.Replace(o, " N", " "+strconv.Itoa(size), -1)
				out = append(out, o)
				if made {
					size++
				}
			}
			g.Emit("hash " + strings.Join(out, " "))
		})
	}
	// arrays: every sequence of length 3 (thorough: 4) over 21 operations on a four-element literal with a repeated element
	emitOver(g, "arr", "(lit 1 "+k("1")+" (a 1) 1) (lit (a 1) 2)", 2, arrAlphabet(), n-1, func(o string) bool {
		return hasAnyPrefix(o, "(slice", "(eachSlice", "(find", "(at", "(len")
	})
	// implementation only: entries among the elements of arrays; the List forms of Merge and the remaining constructors
	emitOver(g, "@earr", "(lit 1 "+k("1")+") (entry 1 "+k("1")+") (entry 2 2) (lit (a 1 "+k("1")+") 2)", 4, entryArrAlphabet(), n-1, func(o string) bool {
		return hasAnyPrefix(o, "(slice", "(eachSlice", "(find")
	})
	emitOver(g, "@ehash", "(mnew) (mput 0 1 5) (mput 0 "+k("a")+" u) (wrap (1 1) ("+k("1")+" u) ((a 1) 3))", 2, listHashAlphabet(), n-2, func(o string) bool {
		return hasAnyPrefix(o, "(mput", "(get", "(addAll L 0)")
	})
	// 2. random long histories
	for i := 0; i < 150*g.Scale; i++ {
		g.Emit(randSH(g.Rng, 100))
	}
	for i := 0; i < 1500*g.Scale; i++ {
		g.Emit(randSH(g.Rng, 3+g.Rng.Intn(12)))
	}
	for i := 0; i < 100*g.Scale; i++ {
		g.Emit(randHash(g.Rng, 100, false, i%2 == 0))
	}
	for i := 0; i < 1500*g.Scale; i++ {
		g.Emit(randHash(g.Rng, 3+g.Rng.Intn(10), i%5 == 0, i%3 == 0))
	}
	for i := 0; i < 50*g.Scale; i++ {
		g.Emit(randArr(g.Rng, 60))
	}
	for i := 0; i < 800*g.Scale; i++ {
		g.Emit(randArr(g.Rng, 3+g.Rng.Intn(10)))
	}
	for i := 0; i < 600*g.Scale; i++ {
		g.Emit(randEntryArr(g.Rng, 3+g.Rng.Intn(10)))
	}
	for i := 0; i < 600*g.Scale; i++ {
		g.Emit(randGoMapHash(g.Rng, 2+g.Rng.Intn(8)))
	}
	for i := 0; i < 800*g.Scale; i++ {
		g.Emit(randListHash(g.Rng, 3+g.Rng.Intn(10)))
	}
	for i := 0; i < 30*g.Scale; i++ {
		g.Emit(randListHash(g.Rng, 60))
	}
	for i := 0; i < 400*g.Scale; i++ {
		g.Emit(randMutableViews(g.Rng, 3+g.Rng.Intn(12)))
	}
	// 3. malformed stream (outside the quantifier; both sides must still agree)
	for _, l := range []string{"sh (put a 1)", "sh (frobnicate)", "sh (put x61)", "hash (wrap (1))", "hash (put x 1 2)", "hash (delete 0)",
		"hash (wrap (1 1)) (put 5 1 1) (delete 7 1)", "arr (lit 1) (add 3 1)", "arr (lit (b 1))", "hash (wrap ((b) 1))", "sh put", "arr (slice 0 1)"} {
		g.Emit(l)
	}
}
