// Package c05: printing and parsing are inverse (property C05).
//
// ops (model + implementation unless marked @):
//
//	quote <xS>                PuppetQuote(s)                              → x<quoted text>
//	rxquote <xS>              RegexpQuote(s)                              → x<quoted text>
//	rt-str <xS>               quote, parse back                           → x<quoted text> rt=t|f
//	rt-rx <xS>                regexp value: print, parse back             → x<text> rt=t|f | invalid
//	rt-int <N>                integer: print, parse back                  → x<text> rt=t|f
//	rt-val <value>            program-format text, parse (+ resolve constructor calls), compare
//	                                                                      → x<text> rt=t|f
//	rt-objlit <xTYPENAME> (h (k v)*) (<xBADRX>*)
//	                          the WRITTEN form of an object instance: px.New(type, init hash) printed in program format, and
//	                          what that text parses to                                    → x<text> value <expr> | …
//	rt-tval <value> (<xBADRX>*) ((BITS xFTEXT)*)
//	                          the same for a value that holds TYPES ((ty xTEXT) leaves): the model resolves the type
//	                          expressions of the parse result as types.ResolveDeferred does                   → x<text> rt=t|f
//	rt-type <xTEXT> (<xBADRX>*) [((BITS xFTEXT)*)]
//	                          T := ParseType(text); s := T.String(); T' := ParseType(s); T' = T ∧ T'.String() = s
//	                                                                      → x<s> rt=t|f | <outcome of the first parse>
//	                          the optional third argument is the float-text oracle of the model (decimal float rendering is a
//	                          parameter, DESIGN §3.4): for every bound of a Float type inside T, its IEEE bits and the text the
//	                          implementation prints for it in program format — computed when the op line is generated
//	rt-api <ctor>             a collection type built through the Go constructors: (array xE LO HI) (hash xK xV LO HI)
//	                          (collection LO HI) (string LO HI) (tuple (xT*) [LO HI]); printed text and round trip
//	@rt-typeof <value>        the inferred types of a value (PType, DetailedType, Generic) round-trip  (implementation only)
//
// value syntax: u | d | (b t|f) | (i N) | (f BITS xTEXT) | (s xHEX) | (r xHEX) | (a v*) | (h (k v)*) | (ty xTEXT)
//
//	| (bin xHEX) | (ts xTEXT) | (tsp N) | (sv xTEXT) | (uri xTEXT) | (obj xTYPENAME v*) | (sens v)
//	| (param xNAME xTYPETEXT v|none t|f) | (tname xNAMESPACE xNAME) | (dfr xNAME v*)      instances of the Go-implemented
//	  object types Parameter (name, type, value or none, captures_rest), TypedName, Deferred
//
// `(f BITS xTEXT)`: decimal float rendering is a parameter of the model (DESIGN §3.4); TEXT is what the implementation
// prints for that float in program format, computed when the op line is generated; the model prints TEXT and checks
// with its own exact decimal reader that TEXT denotes BITS.
package c05

import (
	"fmt"
	"math"
	"regexp"
	"math/rand"
	"net/url"
	"strconv"
	"strings"
	"time"
	"unicode/utf8"

	"bytes"

	"verif/harness/core"
	"verif/harness/sx"
	"verif/harness/syn"

	"github.com/lyraproj/pcore/px"
	"github.com/lyraproj/pcore/types"
	"github.com/lyraproj/pcore/utils"
	"github.com/lyraproj/semver/semver"
)

func init() {
	core.Register(&core.Prop{
		ID:   "C05",
		Rule: "distinct op lines; non-trivial = a parameterized type, a container value, or a string/regexp that needs at least one escape",
		Gen:  gen,
		Exec: exec,
	})
}

// ProgramFormat is the property's "program format": %p for every value, no delimiter flag (NOT types.Program).
func programFormat() px.FormatContext {
	return px.NewFormatContext(types.DefaultAnyType(), px.NewFormat("%p"), types.DefaultIndentation)
}

func hx(s string) string { return sx.Str(s).Atom }

// floatShape: the texts of finite floats in program format (twin of FTail in lean/Pcore/Proofs/FloatLex.lean)
var floatShape = regexp.MustCompile(`^-?[0-9]+(\.[0-9]+(e[+-][0-9]+)?|e[+-][0-9]+)$`)

// exec runs one op under a deadline of its own: on the original tree PuppetQuote does not return for a string that
// holds U+FFFD (and allocates without bound while it spins)
func exec(c px.Context, op string, args []sx.Sexp) (res core.Result) {
	kind, ok := syn.Guarded(c, func() { res = exec1(c, op, args) })
	if !ok {
		if kind == "skipped" {
			return core.Result{Out: "skipped", Pred: "n/a", Tags: []string{"skipped-after-timeouts"}}
		}
		return core.Fail("timeout", "timeout", "printing / parsing did not return within the deadline")
	}
	return res
}

func exec1(c px.Context, op string, args []sx.Sexp) core.Result {
	if len(args) == 0 {
		return core.Result{Out: "bad-op", Pred: "FAIL harness-bad-op " + op}
	}
	defineTypes(c)
	switch op {
	case "quote", "rxquote":
		s, err := args[0].AsBytes()
		if err != nil {
			break
		}
		var buf bytes.Buffer
		o := syn.Safely(func() px.Value {
			if op == "quote" {
				utils.PuppetQuote(&buf, string(s))
			} else {
				utils.RegexpQuote(&buf, string(s))
			}
			return px.Undef
		})
		if o.Kind != "value" {
			return core.Fail(o.Kind, "quote-"+o.Kind, o.Msg)
		}
		return core.Result{Out: hx(buf.String()), Pred: "ok", NonTrivial: strings.ContainsAny(string(s), "'\\\"$\n\t\r"), Tags: []string{op}}
	case "rt-str":
		s, err := args[0].AsBytes()
		if err != nil {
			break
		}
		return rtValue(c, op, types.WrapString(string(s)), needsEscape(string(s)), "")
	case "rt-rx":
		if len(args) != 3 {
			break
		}
		s, err := args[0].AsBytes()
		if err != nil {
			break
		}
		var rx px.Value
		if o := syn.Safely(func() px.Value { return types.WrapRegexp(string(s)) }); o.Kind != "value" {
			return core.Result{Out: "invalid", Pred: "n/a", Tags: []string{"rx-invalid"}}
		} else {
			rx = o.Val
		}
		return rtValue(c, op, rx, needsEscape(string(s)), rxClass(string(s)))
	case "rt-int":
		return rtValue(c, op, types.WrapInteger(args[0].MustInt()), false, "")
	case "rt-val", "rt-tval":
		if len(args) != 2 && !(op == "rt-tval" && len(args) == 3) {
			break
		}
		var v px.Value
		if o := syn.Safely(func() px.Value { return valOf(c, args[0]) }); o.Kind != "value" {
			return core.Result{Out: "unbuildable", Pred: "n/a", Tags: []string{"unbuildable"}}
		} else {
			v = o.Val
		}
		return rtValue(c, op, v, args[0].IsList && len(args[0].List) > 2, valClass(args[0]))
	case "rt-objlit":
		if len(args) != 3 {
			break
		}
		var text string
		if o := syn.Safely(func() px.Value {
			inst := px.New(c, c.ParseType(args[0].MustStr()), valOf(c, args[1]))
			text = px.ToString2(inst, programFormat())
			return px.Undef
		}); o.Kind != "value" {
			return core.Result{Out: "unbuildable", Pred: "n/a", Tags: []string{"rt-objlit", "unbuildable"}}
		}
		p := syn.Parse(text)
		return core.Result{Out: hx(text) + " " + p.Canon(), Pred: "ok", NonTrivial: true, Tags: []string{"rt-objlit", "parse:" + p.Kind}}
	case "rt-type":
		if len(args) != 2 && len(args) != 3 {
			break
		}
		s, err := args[0].AsBytes()
		if err != nil {
			break
		}
		return rtType(c, string(s))
	case "rt-api":
		// a collection type built through the Go constructors (not through ParseType)
		var t px.Type
		if o := syn.Safely(func() px.Value { return apiType(c, args[0]) }); o.Kind != "value" {
			return core.Result{Out: "unbuildable", Pred: "n/a", Tags: []string{"rt-api", "unbuildable"}}
		} else {
			t = o.Val.(px.Type)
		}
		r := typeRoundTrip(c, t)
		r.NonTrivial = true
		r.Tags = append(r.Tags, "rt-api", "type:"+t.Name())
		return r
	case "rt-typeof":
		var v px.Value
		if o := syn.Safely(func() px.Value { return valOf(c, args[0]) }); o.Kind != "value" {
			return core.Result{Out: "unbuildable", Pred: "n/a", Tags: []string{"unbuildable"}}
		} else {
			v = o.Val
		}
		return rtTypeOf(c, v)
	}
	return core.Result{Out: "bad-op", Pred: "FAIL harness-bad-op " + op}
}

func needsEscape(s string) bool {
	for _, c := range s {
		if c < 0x20 || c == '\'' || c == '\\' || c == '"' || c == '$' || c == '/' || c == utf8.RuneError {
			return true
		}
	}
	return false
}

// rxClass names the shapes of a regexp source that no regexp literal can denote (so the printed literal can only be
// an equivalent regexp, not an equal one): an escaped slash `\/` (the lexer removes the backslash), and a raw newline,
// NUL or U+FFFD (they end the literal / stop the reader; printed as \n, \x00, \x{FFFD}).
func rxClass(s string) string {
	rs := []rune(s)
	for i := 0; i < len(rs); i++ {
		switch rs[i] {
		case '\\':
			if i+1 < len(rs) && rs[i+1] == '/' {
				return "rx-escaped-slash"
			}
			if i+1 < len(rs) && (rs[i+1] == 0 || rs[i+1] == utf8.RuneError) {
				return "rx-raw-newline-nul-fffd"
			}
			i++
		case '\n', 0, utf8.RuneError:
			return "rx-raw-newline-nul-fffd"
		}
	}
	return ""
}

func valClass(e sx.Sexp) string {
	if e.Tag() == "r" {
		if b, err := e.Args()[0].AsBytes(); err == nil {
			if k := rxClass(string(b)); k != "" {
				return k
			}
		}
	}
	if e.IsList {
		for _, k := range e.List {
			if c := valClass(k); c != "" {
				return c
			}
		}
	}
	return ""
}

// liveClass walks a value and names the first known-unrepresentable thing in it (a regexp source no literal can
// denote, a Timespan value, a type holding an exotic type); exc reports the property's stated exception (a type value
// holding an exact-value String where it prints as plain String).
func liveClass(v px.Value, depth int) (cls string, exc bool) {
	defer func() { _ = recover() }()
	if depth > 40 {
		return
	}
	merge := func(vs ...px.Value) {
		for _, x := range vs {
			c, e := liveClass(x, depth+1)
			if cls == "" || c == "leaf-outside-quantifier" {
				cls = c
			}
			exc = exc || e
		}
	}
	switch x := v.(type) {
	case *types.Regexp:
		cls = rxClass(x.PatternString())
	case types.Deferred:
		// a Deferred VALUE prints in the named-argument form Deferred('name' => …, 'arguments' => […]), which the parser
		// reads as the positional special form Deferred(name, args…)
		cls = "deferred-value"
	case types.Timespan, *types.Timestamp:
		cls = "leaf-outside-quantifier"
	case px.Type:
		exc = hasPlainExactString(x)
		cls = typeClass(x, "")
	case *types.Hash:
		x.EachPair(func(k, e px.Value) { merge(k, e) })
	case *types.Array:
		x.Each(func(e px.Value) { merge(e) })
	case px.PuppetObject:
		merge(x.InitHash())
	}
	return
}

// rtValue: the value half of the property, directly on the implementation.
func rtValue(c px.Context, op string, v px.Value, nt bool, _ string) core.Result {
	knownClass, exception := liveClass(v, 0)
	if knownClass == "leaf-outside-quantifier" {
		// Timespan and Timestamp values are not among the property's literal values (they print in their own text formats)
		return core.Result{Out: "leaf", Pred: "n/a", Tags: []string{op, "leaf-outside-quantifier"}}
	}
	var text string
	if o := syn.Safely(func() px.Value { text = px.ToString2(v, programFormat()); return px.Undef }); o.Kind != "value" {
		cls := "print-" + o.Kind
		if knownClass != "" {
			cls = knownClass
		}
		return tagged(core.Fail("print-"+o.Kind, cls, o.Msg), op)
	}
	out := hx(text)
	if _, isFloat := v.(px.Float); isFloat && !floatShape.MatchString(text) {
		// the part of the float parameter that is assumed, not proved: the formatter's text has one of the shapes of %g
		// ([-]D+.D+, [-]D+.D+e±D+, [-]D+e±D+) — the shapes C05_float_text_lexes covers
		return tagged(core.Fail(out+" rt=f", "float-text-shape", fmt.Sprintf("the float prints as %q, which is none of the shapes D+.D+ / D+.D+e±D+ / D+e±D+", text)), op)
	}
	o := syn.Parse(text)
	if o.Kind == "skipped" {
		return core.Result{Out: "skipped", Pred: "n/a", Tags: []string{op, "skipped-after-timeouts"}}
	}
	if o.Kind != "value" {
		cls := "reparse-" + o.Kind
		if knownClass != "" {
			cls = knownClass
		}
		return tagged(core.Fail(out+" rt=f", cls, fmt.Sprintf("%q does not parse: %s", text, o.Msg)), op)
	}
	back := o.Val
	if r := syn.Safely(func() px.Value { return types.ResolveDeferred(c, back, px.EmptyMap) }); r.Kind != "value" {
		cls := "resolve-" + r.Kind
		if knownClass != "" {
			cls = knownClass
		}
		return tagged(core.Fail(out+" rt=f", cls, fmt.Sprintf("%q parses but its types / constructor calls do not resolve: %s", text, r.Msg)), op)
	} else {
		back = r.Val
	}
	eq := false
	if r := syn.Safely(func() px.Value { eq = px.Equals(v, back, nil) && px.Equals(back, v, nil); return px.Undef }); r.Kind != "value" {
		return tagged(core.Fail(out+" rt=f", "equals-"+r.Kind, r.Msg), op)
	}
	if !eq {
		if exception {
			return core.Result{Out: out + " rt=f", Pred: "n/a", Tags: []string{op, "exact-string-exception"}}
		}
		cls := "value-differs"
		if knownClass != "" {
			cls = knownClass
		}
		return tagged(core.Fail(out+" rt=f", cls, fmt.Sprintf("%q parses to %s", text, syn.Enc(o.Val))), op)
	}
	return core.Result{Out: out + " rt=t", Pred: "ok", NonTrivial: nt, Tags: []string{op}}
}

func tagged(r core.Result, tags ...string) core.Result {
	r.Pred = syn.Clean(r.Pred)
	r.Tags = append(r.Tags, tags...)
	return r
}

// rtType: the type half of the property.
func rtType(c px.Context, text string) core.Result {
	if p := syn.Parse(text); p.Kind != "value" {
		return core.Result{Out: p.Canon(), Pred: "n/a", Tags: []string{"rt-type", "unparsable"}}
	}
	o := syn.Safely(func() px.Value { return c.ParseType(text) })
	if o.Kind != "value" {
		return core.Result{Out: o.Canon(), Pred: "n/a", Tags: []string{"rt-type", "rejected:" + o.Kind}}
	}
	t, ok := o.Val.(px.Type)
	if !ok {
		return core.Result{Out: "no-type", Pred: "n/a", Tags: []string{"rt-type", "rejected:nil"}}
	}
	r := typeRoundTrip(c, t)
	r.NonTrivial = strings.ContainsAny(text, "[")
	r.Tags = append(r.Tags, "rt-type", "type:"+t.Name())
	return r
}

func typeRoundTrip(c px.Context, t px.Type) core.Result {
	var s string
	if o := syn.Safely(func() px.Value { s = t.String(); return px.Undef }); o.Kind != "value" {
		return core.Fail("print-"+o.Kind, typeClass(t, "print-"+o.Kind), o.Msg)
	}
	out := hx(s)
	if p := syn.Parse(s); p.Kind == "skipped" {
		return core.Result{Out: "skipped", Pred: "n/a", Tags: []string{"skipped-after-timeouts"}}
	} else if p.Kind != "value" {
		return core.Fail(out+" rt=f", typeClass(t, "reparse-"+p.Kind), fmt.Sprintf("%s does not parse: %s", s, p.Msg))
	}
	o := syn.Safely(func() px.Value { return c.ParseType(s) })
	if o.Kind != "value" {
		return core.Fail(out+" rt=f", typeClass(t, "reparse-"+o.Kind), fmt.Sprintf("printed text %s is rejected: %s", s, o.Msg))
	}
	t2, ok := o.Val.(px.Type)
	if !ok {
		return core.Fail(out+" rt=f", typeClass(t, "reparse-nil"), fmt.Sprintf("printed text %s resolves to no type", s))
	}
	var s2 string
	eq := false
	if r := syn.Safely(func() px.Value { s2 = t2.String(); eq = t2.Equals(t, nil) && t.Equals(t2, nil); return px.Undef }); r.Kind != "value" {
		return core.Fail(out+" rt=f", typeClass(t, "equals-"+r.Kind), r.Msg)
	}
	if hasPlainExactString(t) {
		// the property's stated exception: String constrained to one exact value prints as plain String
		if s2 != s {
			return core.Fail(out+" rt=f", typeClass(t, "exact-string-reprint"), fmt.Sprintf("%s prints again as %s", s, s2))
		}
		return core.Result{Out: out + " rt=" + sx.B(eq), Pred: "n/a", Tags: []string{"exact-string-exception"}}
	}
	if !eq {
		return core.Fail(out+" rt=f", typeClass(t, "type-differs"), fmt.Sprintf("%s parses to a different type (which prints as %s)", s, s2))
	}
	if s2 != s {
		return core.Fail(out+" rt=f", typeClass(t, "reprint-differs"), fmt.Sprintf("%s prints again as %s", s, s2))
	}
	return core.Result{Out: out + " rt=t", Pred: "ok"}
}

// Types outside the Lean model whose round trip is known not to hold in general; a failing type that holds one of
// them is classified by group (the first group found, in this order):
//
//	leaf-type-params   Timespan, Timestamp, SemVer, SemVerRange, URI with parameters: the parameters print in the leaf's own
//	                   text format (Go durations, Go time stamps, merged version ranges, URI hashes), which the creator does not read
//	lazy-type          Init, Like: resolved lazily; printing may raise
//	nominal-type       Object, TypeSet, aliases, TypeReference: print as a name (or compare by identity)
//	callable-block     a Callable whose block position holds something that is not a Callable, or whose parameters hold
//	                   Unit (dropped when printing) or start with a Tuple (read back as the whole parameter tuple)
var exoticGroups = []struct {
	class string
	names []string
}{
	{"leaf-type-params", []string{"Timespan", "Timestamp", "SemVer", "SemVerRange", "URI"}},
	{"lazy-type", []string{"Init", "Like"}},
	{"nominal-type", []string{"Object", "TypeSet", "TypeAlias", "TypeReference"}},
	{"callable-block", []string{"CallableBlock"}},
}

// typeClass refines a failure class by what in the type is known to be unrepresentable.
func typeClass(t px.Type, dflt string) string {
	cls := dflt
	found := map[string]bool{}
	safeAccept(t, func(x px.Type) {
		switch x := x.(type) {
		case *types.RegexpType:
			if k := rxClass(x.PatternString()); k != "" {
				cls = k
			}
		case *types.TypeAliasType:
			if x.Name() != "Data" && x.Name() != "RichData" {
				found["TypeAlias"] = true
			}
		case *types.CallableType:
			if degenerateCallable(x) {
				found["CallableBlock"] = true
			}
		case px.TypeSet:
			found["TypeSet"] = true
		case px.ObjectType:
			if !strings.HasPrefix(x.Name(), "My::P1") && !strings.HasPrefix(x.Name(), "My::P2") && !strings.HasPrefix(x.Name(), "My::P3") {
				found["Object"] = true
			}
		case px.ParameterizedType:
			n := 0
			func() {
				defer func() { _ = recover() }()
				n = len(x.Parameters())
			}()
			if n > 0 || x.Name() == "Init" || x.Name() == "Like" {
				found[x.Name()] = true
			}
		}
	})
	if cls == dflt {
		for _, g := range exoticGroups {
			for _, n := range g.names {
				if found[n] {
					return g.class
				}
			}
		}
	}
	return cls
}

// degenerateCallable: does the Callable have a parameter list that does not print invertibly (known finding
// C05-callable-block)?  Computed from the type itself — the negation of the model's `CallableShape`
// (lean/Pcore/Proofs/CallableArgs.lean): the block is not a Callable / Optional[Callable]; no member types unless the Tuple is
// [0, 0], or the default Tuple with a return or block type to print; a Unit member other than the single one that stands for
// "sizes only"; without a return type a leading Tuple member; without block and size a trailing block-typed member.
func degenerateCallable(x *types.CallableType) (deg bool) {
	defer func() {
		if recover() != nil {
			deg = true
		}
	}()
	isBlock := func(t px.Type) bool {
		if o, ok := t.(*types.OptionalType); ok {
			t = o.ContainedType()
		}
		_, ok := t.(*types.CallableType)
		return ok
	}
	blk, ret := x.BlockType(), x.ReturnType()
	if blk != nil && !isBlock(blk) {
		return true
	}
	pt, ok := x.ParametersType().(*types.TupleType)
	if !ok || pt == nil {
		return false // the default Callable (no parameter Tuple): it has neither block nor return type
	}
	var size *types.IntegerType
	if sv, ok := pt.Get("size_type"); ok {
		size, _ = sv.(*types.IntegerType)
	}
	ts := pt.Types()
	if len(ts) == 0 {
		if size != nil && size.Min() == 0 && size.Max() == 0 {
			return false
		}
		return !(size != nil && size.Min() == 0 && size.Max() == math.MaxInt64 && (ret != nil || blk != nil))
	}
	units := 0
	for _, p := range ts {
		if _, ok := p.(*types.UnitType); ok {
			units++
		}
	}
	if units > 0 {
		return !(len(ts) == 1 && size != nil && !(size.Min() == 0 && size.Max() == 0))
	}
	if ret == nil {
		if _, ok := ts[0].(*types.TupleType); ok {
			return true
		}
	}
	if blk == nil && size == nil && isBlock(ts[len(ts)-1]) {
		return true
	}
	return false
}

// safeAccept: some Accept methods dereference a nil member of a default type (Init); that is not this property's business
func safeAccept(t px.Type, v px.Visitor) {
	defer func() { _ = recover() }()
	t.Accept(v, nil)
}

// hasPlainExactString: does t hold a String constrained to one exact value in a position where it prints as `String`
// (everywhere except directly inside Optional[...] / NotUndef[...] and as a Struct member key)?  Accept() cannot be
// used: it hands out the embedded *stringType of a vcStringType.
func hasPlainExactString(t px.Type) bool {
	defer func() { _ = recover() }()
	return plainVC(t, false, 0)
}

func isVC(x px.Type) bool {
	if x == nil {
		return false
	}
	if st, ok := x.(interface{ Value() *string }); ok && x.Name() == "String" {
		return st.Value() != nil
	}
	return false
}

func plainVC(t px.Type, printedPos bool, depth int) bool {
	if t == nil || depth > 50 {
		return false
	}
	if isVC(t) {
		return !printedPos
	}
	any := func(ts ...px.Type) bool {
		for _, x := range ts {
			if plainVC(x, false, depth+1) {
				return true
			}
		}
		return false
	}
	switch x := t.(type) {
	case *types.OptionalType:
		return plainVC(x.ContainedType(), true, depth+1)
	case *types.NotUndefType:
		return plainVC(x.ContainedType(), true, depth+1)
	case *types.StructType:
		for _, e := range x.Elements() {
			k := e.Key()
			if o, ok := k.(*types.OptionalType); ok {
				k = o.ContainedType()
			}
			if !isVC(k) && plainVC(k, false, depth+1) {
				return true
			}
			if plainVC(e.Value(), false, depth+1) {
				return true
			}
		}
		return false
	case *types.ArrayType:
		return any(x.ElementType())
	case *types.HashType:
		return any(x.KeyType(), x.ValueType())
	case *types.TupleType:
		return any(x.Types()...)
	case *types.VariantType:
		return any(x.Types()...)
	case *types.TypeType:
		return any(x.ContainedType())
	case *types.SensitiveType:
		return any(x.ContainedType())
	case *types.IterableType:
		return any(x.ElementType())
	case *types.IteratorType:
		return any(x.ElementType())
	case *types.CallableType:
		return any(x.ParametersType(), x.ReturnType(), x.BlockType())
	case *types.InitType:
		return any(x.Type())
	}
	return false
}

func rtTypeOf(c px.Context, v px.Value) core.Result {
	var ts []px.Type
	if o := syn.Safely(func() px.Value {
		ts = append(ts, v.PType(), px.DetailedValueType(v), px.Generalize(v.PType()))
		return px.Undef
	}); o.Kind != "value" {
		cls, _ := liveClass(v, 0)
		if cls == "leaf-outside-quantifier" {
			return core.Result{Out: "leaf", Pred: "n/a", Tags: []string{"rt-typeof", "leaf-outside-quantifier"}}
		}
		if cls == "" {
			cls = "infer-" + o.Kind
		}
		return core.Fail("infer-"+o.Kind, cls, o.Msg)
	}
	outs := []string{}
	for _, t := range ts {
		r := typeRoundTrip(c, t)
		outs = append(outs, r.Out)
		if strings.HasPrefix(r.Pred, "FAIL") {
			r.Tags = append(r.Tags, "rt-typeof")
			return r
		}
	}
	return core.Result{Out: strings.Join(outs, " | "), Pred: "ok", NonTrivial: true, Tags: []string{"rt-typeof"}}
}

// apiType builds (array E LO HI) (hash K V LO HI) (collection LO HI) (string LO HI) (tuple (T*) LO HI | (T*)) through the
// exported constructors; E, K, V, T are type names
func apiType(c px.Context, e sx.Sexp) px.Type {
	a := e.Args()
	ty := func(x sx.Sexp) px.Type { return c.ParseType(x.MustStr()) }
	rng := func(lo, hi sx.Sexp) *types.IntegerType { return types.NewIntegerType(lo.MustInt(), hi.MustInt()) }
	switch e.Tag() {
	case "array":
		return types.NewArrayType(ty(a[0]), rng(a[1], a[2]))
	case "hash":
		return types.NewHashType(ty(a[0]), ty(a[1]), rng(a[2], a[3]))
	case "collection":
		return types.NewCollectionType(rng(a[0], a[1]))
	case "string":
		return types.NewStringType(rng(a[0], a[1]), "")
	case "tuple":
		ts := []px.Type{}
		for _, x := range a[0].List {
			ts = append(ts, ty(x))
		}
		if len(a) == 1 {
			return types.NewTupleType(ts, nil)
		}
		return types.NewTupleType(ts, rng(a[1], a[2]))
	}
	panic(fmt.Errorf("bad api type %s", e))
}

// ---- values ---------------------------------------------------------------------------------------------------

const objTypes = `type My::Pt = Object[{attributes => {x => Integer, y => {type => String, value => 'd'}}}]`
const objTypes2 = `type My::Box = Object[{attributes => {items => Array[Any], label => {type => Optional[String], value => undef}, inner => {type => Optional[My::Pt], value => undef}}}]`

// My::Lim: attributes whose type accepts undef and whose default is NOT undef (max, unit, ratio, flag), one whose default
// is undef (note), a non-optional one with a default (tags) and a given_or_derived one (gd): an instance must print every
// value that differs from the default — an explicit undef included — and may leave out only what equals the default
// parameterized Object types (type_parameters): one, two and three parameters, own and inherited.  They are defined in every
// context the harness runs in, so their names ARE loadable: a round-trip failure of `My::Pn[…]` is not excused by the known
// finding C05-nominal-type (typeClass skips them).
const objTypesP1 = `type My::P1 = Object[{type_parameters => {a => Integer}, attributes => {a => Integer}}]`
const objTypesP2 = `type My::P2 = Object[{type_parameters => {from => Integer, unit => String}, attributes => {from => Integer, unit => {type => String, value => 'm'}}}]`
const objTypesP3 = `type My::P3 = Object[{type_parameters => {a => Integer, b => String, c => Boolean}, attributes => {a => Integer, b => {type => String, value => 'x'}, c => {type => Boolean, value => true}}}]`
const objTypesP2c = `type My::P2c = Object[{parent => My::P2, attributes => {z => {type => Integer, value => 0}}}]`

// ParamObjectTexts: every subset of the type parameters given / left at default, by position and by name
var paramObjectTexts = []string{
	"My::P1", "My::P1[1]", "My::P1[{a => 1}]", "My::P1[Integer[1, 2]]",
	"My::P2", "My::P2[1]", "My::P2[1, 'km']", "My::P2[default, 'km']", "My::P2[1, default]", "My::P2[{from => 1}]", "My::P2[{unit => 'km'}]", "My::P2[{from => 1, unit => 'km'}]",
	"My::P2[{unit => 'km', from => 1}]", "My::P2[Integer[0, 9], Enum['m', 'km']]", "My::P2[default, Enum['m', 'km']]",
	"My::P2c", "My::P2c[1]", "My::P2c[1, 'km']", "My::P2c[default, 'km']", "My::P2c[{unit => 'km'}]", "My::P2c[{from => 1}]",
	"My::P3", "My::P3[{a => 1}]", "My::P3[{b => 'y'}]", "My::P3[{c => false}]", "My::P3[{a => 1, b => 'y'}]", "My::P3[{a => 1, c => false}]", "My::P3[{b => 'y', c => false}]",
	"My::P3[{a => 1, b => 'y', c => false}]", "My::P3[1]", "My::P3[1, 'y']", "My::P3[1, 'y', false]", "My::P3[default, 'y']", "My::P3[default, default, false]", "My::P3[1, default, false]",
}

const objTypes3 = `type My::Lim = Object[{attributes => {
  name => String,
  max  => {type => Optional[Integer], value => 100},
  unit => {type => Optional[String],  value => 'MB'},
  note => {type => Optional[String],  value => undef},
  tags => {type => Array[String], value => []},
  ratio => {type => Variant[Undef, Float, Integer], value => 1},
  flag => {type => Optional[Boolean], value => true},
  gd => {type => Optional[String], kind => given_or_derived}}}]`

// limChoices: per attribute of My::Lim (after name) the values {explicit undef, equal to the default, different}
var limChoices = [][]string{
	{"u", "(i 100)", "(i 5)"},
	{"u", "(s " + hx("MB") + ")", "(s " + hx("kB") + ")"},
	{"u", "(s " + hx("n") + ")"},
	{"(a)", "(a (s " + hx("t") + "))"},
	{"u", "(i 1)", "(f 4609434218613702656 " + hx("1.50000") + ")", "(i 0)"},
	{"u", "(b t)", "(b f)"},
	{"u", "(s " + hx("g") + ")"},
}

// limInstances: every combination of limChoices as an (obj My::Lim …) value
func limInstances() []string {
	out := []string{}
	var rec func(i int, cur string)
	rec = func(i int, cur string) {
		if i == len(limChoices) {
			out = append(out, "(obj "+hx("My::Lim")+" (s "+hx("c")+")"+cur+")")
			return
		}
		for _, ch := range limChoices[i] {
			rec(i+1, cur+" "+ch)
		}
	}
	rec(0, "")
	return out
}

func genLim(r *rand.Rand) string {
	cur := ""
	for _, chs := range limChoices {
		cur += " " + chs[r.Intn(len(chs))]
	}
	return "(obj " + hx("My::Lim") + " (s " + hx(syn.GenString(r)) + ")" + cur + ")"
}

func defineTypes(c px.Context) {
	if _, ok := c.ParseType("My::Pt").(*types.TypeReferenceType); !ok {
		return
	}
	px.AddTypes(c, types.Parse(objTypes).(px.Type), types.Parse(objTypes2).(px.Type), types.Parse(objTypes3).(px.Type),
		types.Parse(objTypesP1).(px.Type), types.Parse(objTypesP2).(px.Type), types.Parse(objTypesP3).(px.Type), types.Parse(objTypesP2c).(px.Type))
}

func valOf(c px.Context, e sx.Sexp) px.Value {
	if !e.IsList {
		switch e.Atom {
		case "u":
			return px.Undef
		case "d":
			return types.WrapDefault()
		}
		panic(fmt.Errorf("bad value %s", e))
	}
	a := e.Args()
	switch e.Tag() {
	case "b":
		return types.WrapBoolean(a[0].MustBool())
	case "i":
		return types.WrapInteger(a[0].MustInt())
	case "f":
		u, err := strconv.ParseUint(a[0].Atom, 10, 64)
		if err != nil {
			panic(err)
		}
		return types.WrapFloat(math.Float64frombits(u))
	case "s":
		return types.WrapString(a[0].MustStr())
	case "r":
		return types.WrapRegexp(a[0].MustStr())
	case "a":
		vs := make([]px.Value, len(a))
		for i, k := range a {
			vs[i] = valOf(c, k)
		}
		return types.WrapValues(vs)
	case "h":
		es := make([]*types.HashEntry, len(a))
		for i, kv := range a {
			es[i] = types.WrapHashEntry(valOf(c, kv.List[0]), valOf(c, kv.List[1]))
		}
		return types.WrapHash(es)
	case "ty":
		return c.ParseType(a[0].MustStr())
	case "bin":
		b, _ := a[0].AsBytes()
		return types.WrapBinary(b)
	case "ts":
		t, err := time.Parse(time.RFC3339Nano, a[0].MustStr())
		if err != nil {
			panic(err)
		}
		return types.WrapTimestamp(t)
	case "tsp":
		return types.WrapTimespan(time.Duration(a[0].MustInt()))
	case "sv":
		return types.WrapSemVer(semver.MustParseVersion(a[0].MustStr()))
	case "uri":
		u, err := url.Parse(a[0].MustStr())
		if err != nil {
			panic(err)
		}
		return types.WrapURI(u)
	case "sens":
		return types.WrapSensitive(valOf(c, a[0]))
	case "param":
		var val px.Value
		if !(a[2].Atom == "none" && !a[2].IsList) {
			val = valOf(c, a[2])
		}
		return px.NewParameter(a[0].MustStr(), c.ParseType(a[1].MustStr()), val, a[3].MustBool())
	case "tname":
		return px.NewTypedName(px.Namespace(a[0].MustStr()), a[1].MustStr())
	case "dfr":
		vs := make([]px.Value, len(a)-1)
		for i, k := range a[1:] {
			vs[i] = valOf(c, k)
		}
		return types.NewDeferred(a[0].MustStr(), vs...)
	case "obj":
		vs := make([]px.Value, len(a)-1)
		for i, k := range a[1:] {
			vs[i] = valOf(c, k)
		}
		return px.New(c, c.ParseType(a[0].MustStr()), vs...)
	}
	panic(fmt.Errorf("bad value %s", e))
}

// ---- generator ------------------------------------------------------------------------------------------------

var floats = []float64{0, math.Copysign(0, -1), 1, -1, 1.5, 0.1, 1.0 / 3, 1e15, 1e16, 1e20, 1e21, 1e22, 1e-4, 1e-5, 1e-7, 123456789.25, 1234567.0, 123456.0, 100000.0, 1000000.0,
	math.MaxFloat64, -math.MaxFloat64, math.SmallestNonzeroFloat64, 2.2250738585072014e-308, 9007199254740993, 5e-324, 1.7976931348623157e308, 0.30000000000000004, 1e100, 1.5e-300, 255, 3.0e2}

func floatSexp(f float64) string {
	text := px.ToString2(types.WrapFloat(f), programFormat())
	return "(f " + strconv.FormatUint(math.Float64bits(f), 10) + " " + hx(text) + ")"
}

func genFloat(r *rand.Rand) float64 {
	switch r.Intn(4) {
	case 0:
		return floats[r.Intn(len(floats))]
	case 1:
		return float64(r.Int63n(1<<40)) * math.Pow(2, float64(r.Intn(80)-40))
	case 2:
		for {
			f := math.Float64frombits(r.Uint64())
			if !math.IsNaN(f) && !math.IsInf(f, 0) {
				return f
			}
		}
	}
	return float64(r.Intn(2000)-1000) / 8
}

var rxSources = []string{"a", "^a.*$", "a/b", "[a-z]+", "\\d+", "a|b", "\\\\", "(x)(y)?", "\\Aab\\z", "a\\/b", "\\.", "a\tb", "a\\tb", "\\/", "//", "[/]", "\\x41", "é+", "\\$", "a\\\\/b", "^$", "\\\\\\\\",
	"a\nb", "\x00", "\x01", "�", "'", "\"", "a b", "#", "\\n"}

func genVal(r *rand.Rand, depth int, key bool) string {
	if depth <= 0 || r.Intn(3) == 0 {
		switch r.Intn(14) {
		case 0:
			return "u"
		case 1:
			return "d"
		case 2:
			return "(b " + sx.B(r.Intn(2) == 0) + ")"
		case 3, 4:
			return "(i " + strconv.FormatInt(syn.BoundaryInts[r.Intn(len(syn.BoundaryInts))]+int64(r.Intn(3)-1)*int64(r.Intn(2)), 10) + ")"
		case 5, 6:
			return floatSexp(genFloat(r))
		case 7, 8, 9:
			return "(s " + hx(syn.GenString(r)) + ")"
		case 10:
			return "(r " + hx(rxSources[r.Intn(len(rxSources))]) + ")"
		case 11:
			return "(ty " + hx(syn.GenTypeText(r, 2)) + ")"
		case 12:
			switch r.Intn(5) {
			case 0:
				return "(bin " + hx(string([]byte{byte(r.Intn(256)), byte(r.Intn(256)), 0, 255}[:r.Intn(5)])) + ")"
			case 1:
				return "(ts " + hx([]string{"2000-01-01T00:00:00Z", "2018-06-01T12:30:05.123456789Z", "1969-12-31T23:59:59.5Z"}[r.Intn(3)]) + ")"
			case 2:
				return "(tsp " + strconv.FormatInt(int64(r.Intn(1000000))*int64(1+r.Intn(100000)), 10) + ")"
			case 3:
				return "(sv " + hx([]string{"1.0.0", "1.2.3-rc1", "10.20.30+build.5"}[r.Intn(3)]) + ")"
			}
			return "(uri " + hx([]string{"http://example.com/a?b=c#d", "file:///tmp/x", "urn:isbn:1"}[r.Intn(3)]) + ")"
		}
		return "(s " + hx([]string{"a", "b", "key", "x y"}[r.Intn(4)]) + ")"
	}
	n := r.Intn(4)
	k := r.Intn(6)
	if key && k == 5 {
		k = 0 // an object cannot be (part of) a hash key
	}
	switch k {
	case 0, 1, 2:
		xs := make([]string, n)
		for i := range xs {
			xs[i] = genVal(r, depth-1, key)
		}
		return "(a" + pre(xs) + ")"
	case 3, 4:
		xs := []string{}
		seen := map[string]bool{}
		for i := 0; i < n; i++ {
			k := genVal(r, depth-1, true)
			if seen[k] {
				continue
			}
			seen[k] = true
			xs = append(xs, "("+k+" "+genVal(r, depth-1, key)+")")
		}
		return "(h" + pre(xs) + ")"
	}
	if r.Intn(3) == 0 {
		return genLim(r)
	}
	if r.Intn(2) == 0 {
		y := "(s " + hx(syn.GenString(r)) + ")"
		return "(obj " + hx("My::Pt") + " (i " + strconv.Itoa(r.Intn(9)) + ") " + y + ")"
	}
	return "(obj " + hx("My::Box") + " " + "(a" + pre([]string{genVal(r, depth-1, false)}) + ") (s " + hx(syn.GenString(r)) + ") (obj " + hx("My::Pt") + " (i 1)))"
}

func pre(xs []string) string {
	s := ""
	for _, x := range xs {
		s += " " + x
	}
	return s
}

// rxOp renders the rt-rx op line: the source, whether regexp.Compile accepts it, and the compile oracle for the literal
// the implementation prints for it (both computed here, when the line is generated)
func rxOp(s string) string {
	_, err := regexp.Compile(s)
	var buf bytes.Buffer
	utils.RegexpQuote(&buf, s)
	return "rt-rx " + hx(s) + " " + sx.B(err == nil) + " " + syn.OracleSexp(buf.String())
}

// valOp renders an rt-val op line.  A value built from the modelled kinds only (no types, objects, binaries, leaves)
// also goes to the model, together with the regexp.Compile oracle for the text the implementation prints for it.
func valOp(c px.Context, v string) string {
	for _, tag := range []string{"(bin ", "(ts ", "(tsp ", "(sv ", "(uri ", "(obj ", "(sens ", "(param ", "(tname ", "(dfr "} {
		if strings.Contains(v, tag) {
			return "@rt-val " + v + " ()"
		}
	}
	xs, err := sx.Parse(v)
	if err != nil || len(xs) != 1 {
		panic("bad generated value " + v)
	}
	if strings.Contains(v, "(ty ") {
		// a value that holds types goes to the model when every type text in it is inside the resolver model and accepted
		if !tyLeavesModelled(c, xs[0]) {
			return "@rt-val " + v + " ()"
		}
		var text string
		if o := syn.Safely(func() px.Value { text = px.ToString2(valOf(c, xs[0]), programFormat()); return px.Undef }); o.Kind != "value" {
			return "@rt-val " + v + " ()"
		}
		fo := syn.FloatOracle(text)
		if fo == "" {
			fo = " ()"
		}
		return "rt-tval " + v + " " + syn.OracleSexp(text) + fo
	}
	text := px.ToString2(valOf(c, xs[0]), programFormat())
	return "rt-val " + v + " " + syn.OracleSexp(text)
}

// litSexp renders a value of the literal kinds in the value syntax ("" when it holds anything else)
func litSexp(v px.Value) string {
	switch v := v.(type) {
	case *types.UndefValue:
		return "u"
	case *types.DefaultValue:
		return "d"
	case px.Boolean:
		return "(b " + sx.B(v.Bool()) + ")"
	case px.Integer:
		return "(i " + strconv.FormatInt(v.Int(), 10) + ")"
	case px.Float:
		return floatSexp(v.Float())
	case px.StringValue:
		return "(s " + hx(v.String()) + ")"
	case px.Type:
		// a type held by the init hash: by its text, when the resolver model has it (no float bounds: the op carries no
		// float oracle)
		var text string
		if o := syn.Safely(func() px.Value { text = v.String(); return px.Undef }); o.Kind != "value" || strings.Contains(text, "Float[") {
			return ""
		}
		if p := syn.Parse(text); p.Kind != "value" || !syn.Modelled(p.Val) {
			return ""
		}
		return "(ty " + hx(text) + ")"
	case *types.Array:
		out := "(a"
		ok := true
		v.Each(func(e px.Value) {
			x := litSexp(e)
			ok = ok && x != ""
			out += " " + x
		})
		if !ok {
			return ""
		}
		return out + ")"
	case *types.Hash:
		out := "(h"
		ok := true
		v.EachPair(func(k, e px.Value) {
			a, b := litSexp(k), litSexp(e)
			ok = ok && a != "" && b != ""
			out += " (" + a + " " + b + ")"
		})
		if !ok {
			return ""
		}
		return out + ")"
	}
	return ""
}

// objLitOp: for an (obj …) / (param …) / (tname …) value whose init hash holds literal kinds only, the op line that compares
// the WRITTEN form (type name + init hash) with the model; "" otherwise
func objLitOp(c px.Context, v string) string {
	xs, err := sx.Parse(v)
	if err != nil || len(xs) != 1 {
		return ""
	}
	var name, ih, text string
	if o := syn.Safely(func() px.Value {
		if po, ok := valOf(c, xs[0]).(px.PuppetObject); ok {
			name = po.PType().Name()
			ih = litSexp(po.InitHash())
			text = px.ToString2(po, programFormat())
		}
		return px.Undef
	}); o.Kind != "value" || name == "" || ih == "" || !strings.HasPrefix(ih, "(h") {
		return ""
	}
	return "rt-objlit " + hx(name) + " " + ih + " " + syn.OracleSexp(text)
}

// tyLeavesModelled: is every (ty xTEXT) leaf of the value a type expression inside the resolver model that the
// implementation accepts?
func tyLeavesModelled(c px.Context, e sx.Sexp) bool {
	if !e.IsList {
		return true
	}
	if e.Tag() == "ty" {
		text := e.Args()[0].MustStr()
		p := syn.Parse(text)
		if p.Kind != "value" || !syn.Modelled(p.Val) {
			return false
		}
		if _, ok := p.Val.(px.ResolvableType); !ok {
			return false
		}
		o := syn.Safely(func() px.Value { return c.ParseType(text) })
		if o.Kind != "value" {
			return false
		}
		_, ok := o.Val.(px.Type)
		return ok
	}
	for _, k := range e.List {
		if !tyLeavesModelled(c, k) {
			return false
		}
	}
	return true
}

// typeOp renders a model-compared rt-type op line: the text, the regexp.Compile oracle and the float-text oracle
func typeOp(c px.Context, t string) string {
	return "rt-type " + hx(t) + " " + syn.OracleSexp(t) + syn.FloatOracle(t)
}

func gen(g *core.G) {
	c := px.CurrentContext()
	defineTypes(c) // the generator builds object instances too (objLitOp)
	// exhaustive: every string of length <= 2 (quick) / <= 3 (thorough) over the hostile alphabet, as a string and as a quote op
	alpha := syn.HostileAlphabet
	var rec func(cur string, n int)
	rec = func(cur string, n int) {
		g.Emit("rt-str " + hx(cur))
		g.Emit("quote " + hx(cur))
		if n == 0 {
			return
		}
		for _, a := range alpha {
			rec(cur+a, n-1)
		}
	}
	n := 2
	if g.Thorough() {
		n = 3
	}
	rec("", n)
	for _, s := range syn.HostileStrings {
		g.Emit("rt-str " + hx(s))
		g.Emit("quote " + hx(s))
		g.Emit("rxquote " + hx(s))
	}
	for _, s := range rxSources {
		g.Emit(rxOp(s))
		g.Emit("rxquote " + hx(s))
	}
	for _, i := range syn.BoundaryInts {
		for d := int64(-2); d <= 2; d++ {
			if (d > 0 && i > math.MaxInt64-d) || (d < 0 && i < math.MinInt64-d) {
				continue
			}
			g.Emit("rt-int " + strconv.FormatInt(i+d, 10))
		}
	}
	for _, f := range floats {
		g.Emit(valOp(c, floatSexp(f)))
	}
	// seed type expressions and every core type name
	for _, e := range syn.SeedExprs {
		g.Emit("@rt-type " + hx(e) + " " + syn.OracleSexp(e))
	}
	for _, tn := range syn.TypeNames {
		g.Emit("@rt-type " + hx(tn) + " ()")
		for _, a := range syn.ArgReps {
			t := tn + "[" + a + "]"
			g.Emit("@rt-type " + hx(t) + " " + syn.OracleSexp(t))
			for _, b := range syn.ArgReps {
				t := tn + "[" + a + ", " + b + "]"
				g.Emit("@rt-type " + hx(t) + " " + syn.OracleSexp(t))
			}
		}
	}
	// random types from the grammar of all core constructors
	for i := 0; i < 15000*g.Scale; i++ {
		t := syn.GenTypeText(g.Rng, 1+g.Rng.Intn(3))
		g.Emit("@rt-type " + hx(t) + " " + syn.OracleSexp(t))
	}
	// reserved / normalised parameter forms of every collection constructor and their near neighbours: element, key and
	// value type in {none, Any, Unit, String} x size in {none, [0,0], [0,1], [1,1], [0,default], [default,default], …},
	// through ParseType of explicit text (modelled when the creator accepts the text) and through the Go constructors
	elems := []string{"", "Any", "Unit", "String"}
	sizeTexts := []string{"", "0, 0", "0, 1", "1, 1", "0, default", "default, default", "default, 0", "default, 1", "0", "1", "Integer[0, 0]", "Integer[0]", "Integer[0, 1]"}
	join := func(xs ...string) string {
		ys := []string{}
		for _, x := range xs {
			if x != "" {
				ys = append(ys, x)
			}
		}
		return strings.Join(ys, ", ")
	}
	emitText := func(t string, inFragment bool) {
		ok := false
		if inFragment {
			if o := syn.Safely(func() px.Value { return c.ParseType(t) }); o.Kind == "value" {
				_, ok = o.Val.(px.Type)
			}
		}
		if ok {
			g.Emit(typeOp(c, t))
		} else {
			g.Emit("@rt-type " + hx(t) + " " + syn.OracleSexp(t))
		}
	}
	for _, sz := range sizeTexts {
		for _, e := range elems {
			if p := join(e, sz); p != "" {
				emitText("Array["+p+"]", true)
				emitText("Tuple["+p+"]", !strings.Contains(sz, "Integer["))
				emitText("Tuple["+join(e, e, sz)+"]", !strings.Contains(sz, "Integer["))
				emitText("Optional[Array["+p+"]]", true)
			}
			for _, v := range elems {
				if (e == "") != (v == "") {
					continue
				}
				if p := join(e, v, sz); p != "" {
					emitText("Hash["+p+"]", true)
					emitText("Variant[Hash["+p+"], Integer]", true)
				}
			}
		}
		if sz != "" {
			emitText("Collection["+sz+"]", true)
			emitText("String["+sz+"]", true)
		}
	}
	// Float[lo, hi]: every ordered pair of bound texts (accepted when lo <= hi, refused otherwise; an Integer bound is
	// refused), the one-argument and `default` forms, nested inside the old forms and inside Struct
	// (valid by construction — ascending bound texts — is always compared with the model)
	emitValid := func(t string) { g.Emit(typeOp(c, t)) }
	for i, a := range syn.FloatBoundTexts {
		emitValid("Float[" + a + "]")
		emitValid("Float[" + a + ", default]")
		emitValid("Float[default, " + a + "]")
		emitValid("Array[Float[" + a + "], 0, 1]")
		emitValid("Struct[{a => Float[" + a + "], Optional[b] => Optional[Float[default, " + a + "]]}]")
		emitValid("Variant[Float[" + a + "], Integer[0, 1]]")
		emitValid("Hash[String, Float[" + a + "]]")
		emitValid("Tuple[Float[" + a + "], Float]")
		for j, b := range syn.FloatBoundTexts {
			if i <= j {
				emitValid("Float[" + a + ", " + b + "]")
			} else {
				emitText("Float["+a+", "+b+"]", true)
			}
		}
	}
	for _, t := range []string{"Float", "Float[default]", "Float[default, default]"} {
		emitValid(t)
	}
	for _, t := range []string{"Float", "Float[default]", "Float[default, default]", "Float[1, 2]", "Float[1.0, 2]", "Float[1, 2.0]", "Float[1.0, 2.0, 3.0]", "Float['a']", "Float[1e400]",
		"Float[[1.0]]", "Float[[1.0, 2.0]]", "Float[Float]", "Float[undef]", "Float[1.0, undef]", "Float[-1e400, 1.0]"} {
		emitText(t, true)
	}
	// Callable: every argument SHAPE over the leaves its creator distinguishes (types, sizes, `default`, block types, a
	// leading Tuple, Unit, an Integer type) — accepted forms are compared with the model (text and verdict), refused ones
	// run on the implementation only; Runtime and TypeReference: every parameter form; unknown names; second spellings
	for _, al := range syn.ArgShapes(syn.CallableLeaves, false) {
		emitText("Callable["+al+"]", true)
	}
	for _, al := range syn.ArgShapes4([]string{"String", "1", "default", "Callable", "Tuple[String]"}, false) {
		emitText("Callable["+al+"]", true)
	}
	for _, t := range []string{"Callable", "Callable[String]", "Callable[String, Integer]", "Callable[String, 1, 2]", "Callable[String, 1, default]", "Callable[String, String, 1]", "Callable[0, 0]", "Callable[1, 2]",
		"Callable[0, default]", "Callable[String, Callable]", "Callable[String, Optional[Callable]]", "Callable[Callable]", "Callable[1, 2, Callable]", "Callable[[String], Integer]", "Callable[[], Integer]",
		"Callable[[String, 1, 2, Callable], Integer]", "Callable[[Tuple[String]], Integer]", "Callable[[0, 0], Callable]", "Callable[[Callable], Callable]",
		"Struct[{a => Callable[String], Optional[b] => Optional[Callable[[], Undef]]}]", "Array[Callable[[String], Integer], 0, 1]", "Variant[Callable[0, 0], Callable[1, 2]]"} {
		emitValid(t)
	}
	for _, rt := range []string{"", "''", "'go'", "'ruby'", "ruby", "1"} {
		for _, nm := range []string{"", "''", "'x'", "x", "/x/", "String"} {
			for _, pat := range []string{"", "Regexp", "Regexp[/a/]", "Regexp['a']", "/a/", "'a'", "String"} {
				args := []string{}
				for _, a := range []string{rt, nm, pat} {
					if a != "" {
						args = append(args, a)
					}
				}
				if len(args) > 0 {
					emitText("Runtime["+strings.Join(args, ", ")+"]", true)
				}
			}
		}
	}
	// case-insensitive Enums over letters whose lower case is not ASCII arithmetic (strings.ToLower = unicode.ToLower rune by
	// rune: É, İ → i, the title-case digraph ǅ, final sigma stays, the Kelvin sign K → k, ß unchanged, Deseret)
	for _, v := range []string{"\u00c9cole", "\u0130x", "\u01c5", "\u03a3\u03c3\u03c2", "\u212a", "Stra\u00dfe", "\U00010400", "\u00e9", "ABC", "a\u0300"} {
		emitValid("Enum['" + v + "', true]")
		emitValid("Enum['" + v + "', false]")
		emitValid("Enum[['" + v + "', 'b'], true]")
		emitValid("Struct[{k => Enum['" + v + "', 'X', true]}]")
	}
	for _, t := range []string{"Runtime", "Runtime['ruby']", "Runtime['go']", "Runtime['ruby', 'x']", "Runtime['ruby', 'x', Regexp[/a/]]", "Runtime['ruby', 'x', Regexp]", "Runtime['ruby', '']",
		"TypeReference", "TypeReference['x']", "TypeReference['']", "TypeReference['it\\'s \\\\']", "TypeReference['UnresolvedReference']", "Typereference['x']", "Foo", "My::Thing", "Catalogentry", "My::Other",
		"Foo['x']", "My::Thing['Foo']", "Array[Foo]", "Struct[{a => My::Thing, b => Runtime['ruby', 'x']}]", "Optional[TypeReference['q']]",
		"Notundef", "Notundef[String]", "RegExp[/a/]", "Richdata", "Scalardata", "Semver", "Semverrange", "SemverRange", "TimeSpan", "TimeStamp", "Typeset", "Uri", "Struct[{a => Richdata}]"} {
		emitValid(t)
	}
	for _, t := range []string{"Runtime['go', 'x']", "Runtime[1]", "Runtime['a', 'b', Regexp[/a/], 1]", "TypeReference[1]", "TypeReference['a', 'b']", "TypeReference[String]", "Foo[1]", "Foo['a', 'b']",
		"My::Thing[Integer]", "Any[1]", "Richdata[1]"} {
		emitText(t, true)
	}
	for _, t := range []string{"Annotation", "Like", "TypeAlias", "Typealias", "Deferred", "My::Pt", "Pcore::AnyType"} { // core / loadable names outside the model
		g.Emit("@rt-type " + hx(t) + " ()")
	}
	// parameterized Object types: every subset of type parameters given / defaulted, by position and by name, alone and
	// nested (implementation only: nominal types are outside the model; their names are loadable here, so a failure counts)
	for _, t := range paramObjectTexts {
		g.Emit("@rt-type " + hx(t) + " ()")
		if strings.Contains(t, "[") {
			for _, w := range []string{"Array[%s]", "Array[%s, 1, 2]", "Struct[{a => %s}]", "Type[%s]", "Optional[%s]", "Variant[%s, Integer]", "Hash[String, %s]", "Tuple[%s, %s]", "Callable[[%s], %s]"} {
				g.Emit("@rt-type " + hx(strings.Replace(w, "%s", t, -1)) + " ()")
			}
		}
	}
	// Struct: every key form x every value type (each answer of "accepts undef"), alone, after and before another member,
	// and in the other surface forms of the parameter list; nested inside the old forms and the old forms inside it
	// (valid by construction: always compared with the model, so that a creator that starts refusing a form shows)
	for _, k := range syn.StructKeyForms {
		for _, v := range syn.StructValueTypes {
			m := k + " => " + v
			emitValid("Struct[{"+m+"}]")
			emitValid("Struct[{b => Integer, "+m+"}]")
			emitValid("Struct[{"+m+", Optional[a] => String}]")
		}
		m := k + " => Any"
		emitValid("Struct[[{"+m+"}]]")
		emitValid("Struct["+m+"]")
		emitValid("Struct["+m+", b => Integer]")
		emitValid("Array[Struct[{"+m+"}], 1, 2]")
		emitValid("Optional[Struct[{"+m+"}]]")
		emitValid("Variant[Struct[{"+m+"}], Struct]")
		emitValid("Hash[String, Struct[{"+m+"}]]")
		emitValid("Tuple[Struct[{"+m+"}], Struct[{}]]")
		emitValid("Type[Struct[{"+m+"}]]")
	}
	for _, t := range []string{"Struct[{'' => Any}]", "Struct[{Optional[''] => Any}]", "Struct[{Optional[String] => Any}]",
		"Struct[{1 => Any}]", "Struct[{a => 1}]", "Struct[{a => Any}, {b => Any}]", "Struct[{a => Any}, 1]", "Struct[1]", "Struct['a']", "Struct[String]", "Struct[{Optional[Optional[a]] => Any}]",
		"Struct[{NotUndef[String] => Any}]", "Struct[{String => Any}]", "Struct[{String[1] => Any}]", 
		"Struct[{Type[a] => Any}]", "Struct[{[a] => Any}]", "Struct[{a => [Any]}]", "Struct[{a => 'x'}]", "Struct[a => Any, 1]", "Struct[1, a => Any]"} {
		emitText(t, true)
	}
	for _, t := range []string{"Struct", "Struct[{}]", "Struct[[]]", "Struct[[{}]]", "Struct[[[{a => Any}]]]", "Struct[{a => Any, a => Integer}]", "Struct[{a => Any, 'a' => Undef, Optional[a] => String}]",
		"Struct[{a => Any}, ]"} {
		emitValid(t)
	}
	bounds := [][2]int64{{0, 0}, {0, 1}, {1, 1}, {0, math.MaxInt64}, {1, math.MaxInt64}, {0, 5}, {2, 2}}
	for _, b := range bounds {
		lo, hi := strconv.FormatInt(b[0], 10), strconv.FormatInt(b[1], 10)
		g.Emit("rt-api (collection " + lo + " " + hi + ")")
		g.Emit("rt-api (string " + lo + " " + hi + ")")
		for _, e := range elems[1:] {
			g.Emit("rt-api (array " + hx(e) + " " + lo + " " + hi + ")")
			g.Emit("@rt-api (tuple (" + hx(e) + ") " + lo + " " + hi + ")")
			g.Emit("@rt-api (tuple () " + lo + " " + hi + ")")
			for _, v := range elems[1:] {
				g.Emit("rt-api (hash " + hx(e) + " " + hx(v) + " " + lo + " " + hi + ")")
			}
		}
	}
	g.Emit("@rt-api (tuple ())")
	g.Emit("@rt-api (tuple (" + hx("Any") + "))")
	g.Emit("@rt-api (tuple (" + hx("Unit") + " " + hx("Any") + "))")

	// the modelled fragment: valid by construction, model and implementation compared (printed text and round trip verdict)
	for i := 0; i < 20000*g.Scale; i++ {
		t := syn.GenFragType(g.Rng, 1+g.Rng.Intn(3))
		g.Emit(typeOp(c, t))
	}
	// values that hold types: each type of a list covering every constructor of the fragment as an array element, as a hash
	// key, as a hash value, nested two deep, next to scalar leaves
	for _, t := range syn.HeldTypes {
		ty := "(ty " + hx(t) + ")"
		for _, v := range []string{ty, "(a " + ty + ")", "(a " + ty + " (i 1) " + ty + ")", "(h (" + ty + " " + ty + "))", "(h ((s " + hx("k") + ") (a " + ty + " (s " + hx("it's") + "))))",
			"(a (a " + ty + ") (h (" + ty + " (s " + hx("x") + "))))", "(h ((a " + ty + " (i 5)) u))"} {
			g.Emit(valOp(c, v))
		}
	}
	// instances of the Go-implemented object types: Parameter (every combination of name, type, value absent / undef /
	// given, captures_rest), TypedName (every namespace x plain / qualified name), Deferred values; alone and in containers
	for _, nm := range []string{"x", "it's", "a b"} {
		for _, ty := range []string{"Integer", "Optional[String[1]]", "Callable[[String], Integer]", "Struct[{a => Any}]", "My::Pt"} {
			for _, val := range []string{"none", "u", "(s " + hx("d") + ")", "(i 5)", "(a (i 1))"} {
				for _, rest := range []string{"t", "f"} {
					pv := "(param " + hx(nm) + " " + hx(ty) + " " + val + " " + rest + ")"
					g.Emit("@rt-val " + pv + " ()")
					if op := objLitOp(c, pv); op != "" {
						g.Emit(op)
					}
					if rest == "f" {
						g.Emit("@rt-val (a " + pv + " (h ((s " + hx("k") + ") " + pv + "))) ()")
					}
				}
			}
		}
	}
	for _, ns := range []string{"type", "function", "constructor", "definition", "handler", "service", "step", "plan", "task", "allocator", "interface"} {
		for _, nm := range []string{"foo", "My::Thing", "a::b::c", "X"} {
			tv := "(tname " + hx(ns) + " " + hx(nm) + ")"
			g.Emit("@rt-val " + tv + " ()")
			if op := objLitOp(c, tv); op != "" {
				g.Emit(op)
			}
		}
	}
	for _, pv := range []string{"(obj " + hx("My::Pt") + " (i 3) (s " + hx("it's") + "))", "(obj " + hx("My::Pt") + " (i 3))", "(obj " + hx("My::Box") + " (a (i 1) (s " + hx("x") + ")) (s " + hx("l") + "))"} {
		if op := objLitOp(c, pv); op != "" {
			g.Emit(op)
		}
	}
	for _, dv := range []string{"(dfr " + hx("foo") + ")", "(dfr " + hx("foo") + " (i 1) (s " + hx("a") + "))", "(dfr " + hx("$x") + ")", "(a (dfr " + hx("my::fn") + " (a (i 1))))"} {
		g.Emit("@rt-val " + dv + " ()")
	}
	// object instances over a type whose attributes have defaults: every combination of {explicit undef, the default,
	// another value} per attribute — alone, and inside an array and a hash
	for i, v := range limInstances() {
		g.Emit("@rt-val " + v + " ()")
		if op := objLitOp(c, v); op != "" && i%3 == 0 {
			g.Emit(op)
		}
		if i%7 == 0 {
			g.Emit("@rt-val (a " + v + " (h ((s " + hx("k") + ") " + v + "))) ()")
		}
	}
	// random literal values; inferred types of values
	for i := 0; i < 15000*g.Scale; i++ {
		v := genVal(g.Rng, g.Rng.Intn(4), false)
		g.Emit(valOp(c, v))
		if i%3 == 0 {
			g.Emit("@rt-typeof " + v)
		}
	}
	for i := 0; i < 4000*g.Scale; i++ {
		s := syn.GenString(g.Rng) + syn.GenString(g.Rng)
		g.Emit("rt-str " + hx(s))
		g.Emit(rxOp(s))
		g.Emit("rt-int " + strconv.FormatInt(int64(g.Rng.Uint64()), 10))
	}
}
