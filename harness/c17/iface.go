package c17

import (
	"fmt"
	"strings"
	"sync/atomic"

	"verif/harness/core"
	"verif/harness/sx"

	"github.com/lyraproj/pcore/px"
	"github.com/lyraproj/pcore/types"
)

// Implementation-only op `@iface SHAPE HOW`: chains that start at an INTERFACE (a root type with member functions and no
// attributes; pcore matches interfaces structurally, by their functions).
//
//	SHAPE  a word over {f, k, a, n}, one letter per level, root first:
//	         f  adds a member function        k  adds constants only        a  adds an attribute        n  adds nothing
//	       the root is always `f`-like (it declares the function `size`); e.g. `fka` = Iface <- Impl (constants) <- Leaf (attribute)
//	HOW    text | hash     the definitions as parsed text or as init hashes given to the Object meta type
//
// "An instance of a subtype is an instance of every ancestor and never the reverse": an instance of level j is an instance of
// level i for i <= j, and NOT for i > j when some level in (j, i] adds a constant or an attribute (a level that adds a function
// or nothing is an interface again: its ancestors' instances implement it or not by their functions — not judged).
// Classes: iface-subtype-not-instance, iface-ancestor-instance-of-sub, fault.
var ifaceCounter int64

func execIface(c px.Context, args []sx.Sexp) core.Result {
	if len(args) != 2 || args[0].IsList || args[1].IsList {
		return core.Result{Out: "bad-op", Pred: "n/a"}
	}
	shape, how := args[0].Atom, args[1].Atom
	if len(shape) < 1 || len(shape) > 4 || shape[0] != 'f' || strings.Trim(shape, "fkan") != "" || (how != "text" && how != "hash") {
		return core.Result{Out: "bad-op", Pred: "n/a"}
	}
	id := atomic.AddInt64(&ifaceCounter, 1)
	out, pred := "", "ok"
	fail := func(class, format string, xs ...interface{}) {
		if pred == "ok" {
			pred = "FAIL " + class + " " + fmt.Sprintf(format, xs...)
		}
	}
	kind := safely(func() {
		px.DoWithContext(c.Fork(), func(fc px.Context) {
			var chain []px.ObjectType
			var objs []px.Value
			nattr := 0
			for i := 0; i < len(shape); i++ {
				name := fmt.Sprintf("I%d::L%d", id, i)
				var entries []string
				ih := map[string]interface{}{"name": name}
				if i > 0 {
					entries = append(entries, fmt.Sprintf("parent => I%d::L%d", id, i-1))
					ih["parent"] = chain[i-1]
				}
				switch shape[i] {
				case 'f':
					fn := fmt.Sprintf("f%d", i)
					if i == 0 {
						fn = "size"
					}
					entries = append(entries, fmt.Sprintf("functions => {%s => Callable[[], Integer]}", fn))
					ih["functions"] = map[string]interface{}{fn: fc.ParseType("Callable[[], Integer]")}
				case 'k':
					entries = append(entries, fmt.Sprintf("constants => {unit%d => 'kb', factor%d => 1024}", i, i))
					ih["constants"] = map[string]interface{}{fmt.Sprintf("unit%d", i): "kb", fmt.Sprintf("factor%d", i): 1024}
				case 'a':
					entries = append(entries, fmt.Sprintf("attributes => {n%d => Integer}", i))
					ih["attributes"] = map[string]interface{}{fmt.Sprintf("n%d", i): fc.ParseType("Integer")}
					nattr++
				}
				var tp px.ObjectType
				if how == "text" {
					tp = fc.ParseType(fmt.Sprintf("Object[name => '%s', %s]", name, strings.Join(entries, ", "))).(px.ObjectType)
				} else {
					tp = px.New(fc, types.ObjectMetaType, px.Wrap(fc, ih)).(px.ObjectType)
				}
				px.AddTypes(fc, tp)
				chain = append(chain, tp)
				var as []px.Value
				for k := 0; k < nattr; k++ {
					as = append(as, types.WrapInteger(int64(k+1)))
				}
				objs = append(objs, px.New(fc, tp, as...))
			}
			var bits []string
			for i, tp := range chain {
				for j, o := range objs {
					got := px.IsInstance(tp, o)
					bits = append(bits, sx.B(got))
					switch {
					case i <= j && !got:
						fail("iface-subtype-not-instance", "an instance of level %d of %s is not an instance of its ancestor level %d", j, shape, i)
					case i > j && got && strings.ContainsAny(shape[j+1:i+1], "ka"):
						fail("iface-ancestor-instance-of-sub", "an instance of level %d of %s is an instance of the descendant level %d, which adds members", j, shape, i)
					}
				}
			}
			out = strings.Join(bits, "")
		})
	})
	if kind != "" {
		out = kind
		fail("fault", "raised %s", kind)
	}
	return core.Result{Out: out, Pred: pred, NonTrivial: true, Tags: []string{"iface", "iface:" + shape}}
}

func genIface(g *core.G) {
	var rec func(cur string)
	rec = func(cur string) {
		for _, how := range []string{"text", "hash"} {
			g.Emit("@iface " + cur + " " + how)
		}
		if len(cur) < 4 {
			for _, l := range "fkan" {
				rec(cur + string(l))
			}
		}
	}
	rec("f")
}
