package c17

import "verif/harness/core"

func gen(g *core.G) {
}
