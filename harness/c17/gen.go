package c17

import (
	"fmt"
	"math/rand"
	"strconv"
	"strings"

	"verif/harness/core"
	"verif/harness/sx"
)

// ---- printing ops ----------------------------------------------------------------------------------------------------

func optVal(v *val) sx.Sexp {
	if v == nil {
		return sx.A("-")
	}
	return v.sexp()
}

func atoms(tag string, ns []string) sx.Sexp {
	xs := make([]sx.Sexp, len(ns))
	for i, n := range ns {
		xs[i] = sx.A(n)
	}
	return sx.T(tag, xs...)
}

func (d *def) sexp() sx.Sexp {
	p := sx.A("-")
	if d.parent >= 0 {
		p = sx.Int(int64(d.parent))
	}
	as := make([]sx.Sexp, len(d.attrs))
	for i, a := range d.attrs {
		xs := []sx.Sexp{sx.A(a.name), a.ty.sexp(), sx.A(a.kind), optVal(a.dflt)}
		if a.override {
			xs = append(xs, sx.A("o"))
		}
		if a.final != "" {
			xs = append(xs, sx.A(a.final))
		}
		as[i] = sx.L(xs...)
	}
	eq := sx.A("-")
	if d.eqKind != "-" {
		eq = atoms(d.eqKind, d.eq)
	}
	ser := sx.A("-")
	if d.hasSer {
		ser = atoms("l", d.ser)
	}
	out := []sx.Sexp{p, sx.L(as...), eq, sx.A(d.eit), ser}
	if len(d.consts) > 0 {
		ks := []sx.Sexp{}
		for _, k := range d.consts {
			ks = append(ks, sx.L(sx.A(k.name), k.dflt.sexp()))
		}
		out = append(out, sx.T("k", ks...))
	}
	if len(d.params) > 0 {
		ps := []sx.Sexp{}
		for _, q := range d.params {
			ps = append(ps, sx.L(sx.A(q.name), q.ty.sexp()))
		}
		out = append(out, sx.T("p", ps...))
	}
	if len(d.funcs) > 0 {
		fs := []sx.Sexp{}
		for _, f := range d.funcs {
			xs := []sx.Sexp{sx.A(f.name), f.ret.sexp()}
			if f.override {
				xs = append(xs, sx.A("o"))
			}
			if f.final {
				xs = append(xs, sx.A("f"))
			}
			fs = append(fs, sx.L(xs...))
		}
		out = append(out, sx.T("fn", fs...))
	}
	return sx.L(out...)
}

func (a *action) sexp() sx.Sexp {
	switch a.op {
	case "newpos":
		xs := []sx.Sexp{sx.Int(int64(a.t))}
		for _, v := range a.vals {
			xs = append(xs, v.sexp())
		}
		return sx.T("newpos", xs...)
	case "newnamed":
		xs := []sx.Sexp{sx.Int(int64(a.t))}
		for i, v := range a.vals {
			xs = append(xs, sx.L(sx.A(a.names[i]), v.sexp()))
		}
		return sx.T("newnamed", xs...)
	case "get":
		return sx.T("get", sx.Int(int64(a.o)), sx.A(a.name))
	case "inithash":
		return sx.T("inithash", sx.Int(int64(a.o)))
	case "eq":
		return sx.T("eq", sx.Int(int64(a.o)), sx.Int(int64(a.o2)))
	}
	return sx.T("inst", sx.Int(int64(a.t)), sx.Int(int64(a.o)))
}

func opLine(defs []def, acts []action) string {
	ds := make([]sx.Sexp, len(defs))
	for i := range defs {
		ds[i] = defs[i].sexp()
	}
	as := make([]sx.Sexp, len(acts))
	for i := range acts {
		as[i] = acts[i].sexp()
	}
	return "obj " + sx.L(ds...).String() + " " + sx.L(as...).String()
}

// ---- witnesses ---------------------------------------------------------------------------------------------------------

var (
	intW   = []int64{0, 1, 2, -1, 7}
	strW   = []string{"", "x", "y", "ab"}
	floatW = []int64{0, 2, -5, 8} // quarters: 0.0 0.5 -1.25 2.0
	tInt   = &ty{k: "int"}
	tStr   = &ty{k: "str"}
	tAny   = &ty{k: "any"}
	tyOld  = []*ty{tInt, tStr, {k: "bool"}, tAny, {k: "opt", elt: tInt}, {k: "opt", elt: tStr},
		{k: "opt", elt: &ty{k: "bool"}}, {k: "opt", elt: tAny}, {k: "opt", elt: &ty{k: "opt", elt: tInt}}}
	// the wider alphabet: Float, Undef, NotUndef[T], Variant[A,B], Array[T]
	tyNew = []*ty{{k: "float"}, {k: "undef"}, {k: "nu", elt: tInt}, {k: "nu", elt: tAny}, {k: "nu", elt: &ty{k: "opt", elt: tStr}},
		{k: "var", elt: tInt, elt2: tStr}, {k: "var", elt: tInt, elt2: &ty{k: "undef"}}, {k: "var", elt: &ty{k: "nu", elt: tInt}, elt2: tStr},
		{k: "arr", elt: tInt}, {k: "arr", elt: tAny}, {k: "arr", elt: &ty{k: "opt", elt: tInt}}, {k: "arr", elt: &ty{k: "nu", elt: tInt}},
		{k: "opt", elt: &ty{k: "arr", elt: tInt}}, {k: "opt", elt: &ty{k: "float"}}, {k: "opt", elt: &ty{k: "nu", elt: tInt}},
		{k: "nu", elt: &ty{k: "var", elt: tInt, elt2: &ty{k: "undef"}}}, {k: "var", elt: &ty{k: "arr", elt: tInt}, elt2: &ty{k: "float"}}}
	tyAll = append(append([]*ty{}, tyOld...), tyNew...)
)

func anyVal(r *rand.Rand) val {
	switch r.Intn(7) {
	case 0:
		return val{k: "i", i: intW[r.Intn(len(intW))]}
	case 1:
		return val{k: "s", s: strW[r.Intn(len(strW))]}
	case 2:
		return val{k: "b", b: r.Intn(2) == 0}
	case 3:
		return val{k: "f", i: floatW[r.Intn(len(floatW))]}
	case 4:
		v := val{k: "a", es: []val{}}
		for n := r.Intn(3); n > 0; n-- {
			switch r.Intn(4) {
			case 0:
				v.es = append(v.es, val{k: "u"})
			case 1:
				v.es = append(v.es, val{k: "s", s: strW[r.Intn(len(strW))]})
			default:
				v.es = append(v.es, val{k: "i", i: intW[r.Intn(len(intW))]})
			}
		}
		return v
	}
	return val{k: "u"}
}

// witness: a value that is an instance of t
func witness(r *rand.Rand, t *ty) val {
	switch t.k {
	case "int":
		return val{k: "i", i: intW[r.Intn(len(intW))]}
	case "str":
		return val{k: "s", s: strW[r.Intn(len(strW))]}
	case "bool":
		return val{k: "b", b: r.Intn(2) == 0}
	case "any":
		return anyVal(r)
	case "float":
		return val{k: "f", i: floatW[r.Intn(len(floatW))]}
	case "undef":
		return val{k: "u"}
	case "nu":
		for k := 0; k < 20; k++ {
			if v := witness(r, t.elt); v.k != "u" {
				return v
			}
		}
		return val{k: "i", i: 1} // NotUndef[Undef]-like: no witness; the value is ill-typed on purpose
	case "var":
		if r.Intn(2) == 0 {
			return witness(r, t.elt)
		}
		return witness(r, t.elt2)
	case "arr":
		v := val{k: "a", es: []val{}}
		for n := r.Intn(3); n > 0; n-- {
			v.es = append(v.es, witness(r, t.elt))
		}
		return v
	}
	if r.Intn(3) == 0 {
		return val{k: "u"}
	}
	return witness(r, t.elt)
}

// ---- the type alphabet itself ---------------------------------------------------------------------------------------

// alphabet: every type expression up to two constructors over the atoms, plus a few of depth three
func alphabet() []*ty {
	atoms := []*ty{tInt, tStr, tAny, {k: "undef"}, {k: "float"}}
	d1 := []*ty{}
	for _, a := range atoms {
		d1 = append(d1, &ty{k: "opt", elt: a}, &ty{k: "nu", elt: a}, &ty{k: "arr", elt: a})
	}
	d1 = append(d1, &ty{k: "var", elt: tInt, elt2: tStr}, &ty{k: "var", elt: tInt, elt2: &ty{k: "undef"}},
		&ty{k: "var", elt: tStr, elt2: &ty{k: "undef"}}, &ty{k: "var", elt: tAny, elt2: tInt})
	out := append(append([]*ty{}, atoms...), d1...)
	for _, x := range d1 {
		out = append(out, &ty{k: "opt", elt: x}, &ty{k: "nu", elt: x}, &ty{k: "arr", elt: x})
	}
	return append(out, &ty{k: "var", elt: &ty{k: "nu", elt: tInt}, elt2: tStr}, &ty{k: "var", elt: &ty{k: "opt", elt: tInt}, elt2: tStr},
		&ty{k: "var", elt: &ty{k: "arr", elt: tInt}, elt2: &ty{k: "undef"}}, &ty{k: "var", elt: &ty{k: "nu", elt: tInt}, elt2: &ty{k: "undef"}},
		&ty{k: "nu", elt: &ty{k: "nu", elt: &ty{k: "nu", elt: tAny}}}, &ty{k: "opt", elt: &ty{k: "nu", elt: &ty{k: "opt", elt: tInt}}})
}

// genAlphabet: IsAssignable on every pair of the first 24 types (atoms and one constructor) and a sample of the rest (all
// pairs in the thorough tier); IsInstance of every type on ten value shapes
func genAlphabet(g *core.G) {
	ts := alphabet()
	for i, t := range ts {
		for j, u := range ts {
			if (i < 24 && j < 24) || g.Thorough() || g.Rng.Intn(10) == 0 {
				g.Emit("asg " + t.sexp().String() + " " + u.sexp().String())
			}
		}
	}
	vals := []string{"u", "(i 1)", "(s x78)", "(f 2)", "(b t)", "(a)", "(a (i 1))", "(a u)", "(a (i 1) u)", "(a (a (i 1)))", "(a (s x78) (i 2))"}
	for _, t := range ts {
		for _, v := range vals {
			g.Emit("tinst " + t.sexp().String() + " " + v)
		}
	}
}

// ---- definitions ----------------------------------------------------------------------------------------------------------

var namePool = []string{"a", "b", "c", "d", "e", "f", "g", "h", "i", "j", "k", "l"}

func pickKind(r *rand.Rand) string {
	switch n := r.Intn(100); {
	case n < 55:
		return "n"
	case n < 67:
		return "c"
	case n < 73:
		return "d"
	case n < 85:
		return "g"
	}
	return "r"
}

func genAttr(r *rand.Rand, name string) attr {
	a := attr{name: name, ty: tyAll[r.Intn(len(tyAll))], kind: pickKind(r)}
	give := false
	switch a.kind {
	case "c":
		give = r.Intn(25) != 0
	case "d", "g":
		give = r.Intn(30) == 0
	default:
		give = r.Intn(5) < 2
	}
	switch f := r.Intn(40); {
	case f < 4:
		a.final = "f"
	case f == 4:
		a.final = "nf" // an error on a constant
	}
	if give {
		v := witness(r, a.ty)
		if r.Intn(30) == 0 {
			v = anyVal(r) // possibly ill-typed
		}
		a.dflt = &v
	}
	return a
}

func shuffle(r *rand.Rand, xs []string) []string {
	out := append([]string{}, xs...)
	r.Shuffle(len(out), func(i, j int) { out[i], out[j] = out[j], out[i] })
	return out
}

func subset(r *rand.Rand, xs []string) []string {
	var out []string
	for _, x := range xs {
		if r.Intn(2) == 0 {
			out = append(out, x)
		}
	}
	return out
}

// genChain: 1–5 definitions (inheritance depth 0–4): a chain, a fork (children of one parent, often identically shaped), a
// chain with a side branch, or unrelated roots
func genChain(r *rand.Rand) []def {
	n := 1 + r.Intn(3)
	if r.Intn(3) == 0 {
		n = 1 + r.Intn(5)
	}
	shape := r.Intn(5) // 0,1 chain; 2 fork; 3 unrelated roots; 4 chain with a side branch (parent = any earlier definition)
	var defs []def
	used := 0
	for i := 0; i < n; i++ {
		d := def{parent: -1, eqKind: "-", eit: "-"}
		if i > 0 {
			switch shape {
			case 0, 1:
				d.parent = i - 1
			case 2:
				d.parent = 0
			case 4:
				d.parent = i - 1
				if r.Intn(3) == 0 {
					d.parent = r.Intn(i)
				}
			}
		}
		if i == 2 && (shape == 2 || shape == 3) && r.Intn(2) == 0 {
			// identically shaped sibling
			d = defs[1]
			d.attrs = append([]attr{}, defs[1].attrs...)
			defs = append(defs, d)
			continue
		}
		if i == 1 && shape == 3 && r.Intn(2) == 0 {
			d = defs[0]
			d.attrs = append([]attr{}, defs[0].attrs...)
			defs = append(defs, d)
			continue
		}
		na := r.Intn(4)
		if n > 3 {
			na = r.Intn(3)
		}
		if shape == 3 {
			used = 0
		}
		usedBefore := used
		repeated := false
		for k := 0; k < na && used < len(namePool); k++ {
			name := namePool[used]
			used++
			if r.Intn(40) == 0 && usedBefore > 0 && !repeated {
				name = namePool[r.Intn(usedBefore)] // a name of an earlier definition (an override without `override`)
				repeated = true
			}
			d.attrs = append(d.attrs, genAttr(r, name))
		}
		if d.parent >= 0 && r.Intn(25) == 0 {
			// an attribute (or constant) called like an inherited function: OVERRIDE_MEMBER_MISMATCH
			if fs := mkSpec(defs).funcs[d.parent]; len(fs) > 0 {
				a := genAttr(r, fs[r.Intn(len(fs))].name)
				a.override = r.Intn(2) == 0
				d.attrs = append(d.attrs, a)
			}
		}
		if d.parent >= 0 && r.Intn(4) == 0 {
			// override an inherited attribute: same name, `override => true`, mostly the same or a narrower type,
			// often only to give it a default
			inh := mkSpec(defs).all[d.parent]
			if len(inh) > 0 {
				pa := inh[r.Intn(len(inh))]
				dup := false
				for _, x := range d.attrs {
					dup = dup || x.name == pa.name
				}
				if !dup {
					a := attr{name: pa.name, ty: pa.ty, kind: pa.kind, dflt: pa.dflt, override: r.Intn(12) != 0}
					if r.Intn(10) == 0 {
						a.final = "f"
					}
					switch r.Intn(6) {
					case 0:
						if pa.ty.k == "opt" {
							a.ty = pa.ty.elt
						} else if pa.ty.k == "any" {
							a.ty = tyAll[r.Intn(len(tyAll))]
						}
						if a.dflt != nil && !a.ty.inst(*a.dflt) {
							a.dflt = nil
						}
					case 1:
						a.ty = tyAll[r.Intn(len(tyAll))]
						a.dflt = nil
					case 2:
						a.kind = pickKind(r)
					}
					if a.kind == "c" || (a.kind != "d" && a.kind != "g" && r.Intn(2) == 0) {
						v := witness(r, a.ty)
						a.dflt = &v
					} else if a.kind == "d" || a.kind == "g" {
						a.dflt = nil
					}
					k := r.Intn(len(d.attrs) + 1)
					d.attrs = append(d.attrs[:k], append([]attr{a}, d.attrs[k:]...)...)
				}
			}
		} else if len(d.attrs) > 0 && r.Intn(60) == 0 {
			d.attrs[r.Intn(len(d.attrs))].override = true // nothing to override
		}
		if r.Intn(6) == 0 {
			// constants => {…}: fresh names mostly; sometimes the name of an own attribute (an error) or of an inherited
			// member (an automatic override: fine for an inherited constant of an accepting type)
			for k := r.Intn(2) + 1; k > 0 && used < len(namePool); k-- {
				name := namePool[used]
				used++
				if r.Intn(5) == 0 && used > 1 {
					name = namePool[r.Intn(used-1)]
				}
				dup := false
				for _, x := range d.consts {
					dup = dup || x.name == name
				}
				if dup {
					continue
				}
				v := witness(r, []*ty{tInt, tStr, {k: "bool"}, {k: "float"}, {k: "undef"}}[r.Intn(5)])
				t := map[string]string{"i": "int", "s": "str", "b": "bool", "f": "float", "u": "undef"}[v.k]
				d.consts = append(d.consts, attr{name: name, ty: &ty{k: t}, kind: "c", dflt: &v})
			}
		}
		if r.Intn(7) == 0 {
			// type_parameters: named like an own or inherited attribute (the parameter is bound when a construction gives that
			// attribute a value of the parameter's type), sometimes a name no attribute has (never bound), rarely an inherited
			// parameter again (refused)
			var cand []string
			for _, a := range d.attrs {
				cand = append(cand, a.name)
			}
			if d.parent >= 0 {
				for _, a := range mkSpec(defs).all[d.parent] {
					cand = append(cand, a.name)
				}
			}
			cand = append(cand, "tp")
			for k := 1 + r.Intn(2); k > 0; k-- {
				name := cand[r.Intn(len(cand))]
				dup := false
				for _, q := range d.params {
					dup = dup || q.name == name
				}
				if !dup {
					d.params = append(d.params, attr{name: name, ty: []*ty{tInt, tStr, tAny, {k: "bool"}, {k: "float"}}[r.Intn(5)]})
				}
			}
		}
		if r.Intn(6) == 0 {
			// member functions fx / fy / fz (no attribute is called so): fresh ones, and overrides of inherited ones — mostly
			// proper (override => true, the same or a narrower type), sometimes not (no override, a wider type, a final one)
			inh := map[string]fn{}
			if d.parent >= 0 {
				for _, f := range mkSpec(defs).funcs[d.parent] {
					inh[f.name] = f
				}
			}
			rets := []*ty{tInt, tStr, tAny, {k: "opt", elt: tInt}, {k: "float"}}
			names := []string{"fx", "fy", "fz"}
			if r.Intn(8) == 0 {
				// a name clash: a function called like an attribute or constant of the chain (OVERRIDE_MEMBER_MISMATCH, or
				// MEMBER_NAME_CONFLICT for an own `attributes` key; side by side with an own constant it is accepted)
				var cand []string
				for _, a := range d.attrs {
					cand = append(cand, a.name)
				}
				for _, a := range d.consts {
					cand = append(cand, a.name)
				}
				if d.parent >= 0 {
					for _, a := range mkSpec(defs).all[d.parent] {
						cand = append(cand, a.name)
					}
				}
				if len(cand) > 0 {
					names = append(names, cand[r.Intn(len(cand))])
				}
			}
			for _, name := range names {
				if r.Intn(2) == 0 {
					continue
				}
				f := fn{name: name, ret: rets[r.Intn(len(rets))], final: r.Intn(8) == 0}
				if pf, ok := inh[name]; ok {
					f.override = r.Intn(10) != 0
					switch r.Intn(4) {
					case 0, 1:
						f.ret = pf.ret
					case 2:
						if pf.ret.k == "any" || pf.ret.k == "opt" {
							f.ret = tInt
						}
					}
				} else if r.Intn(15) == 0 {
					f.override = true
				}
				d.funcs = append(d.funcs, f)
			}
		}
		defs = append(defs, d)
		// equality / serialization need the specification's view of what exists so far
		s := mkSpec(defs)
		var own, eligible, settable, req, opt []string
		inherited := map[string]bool{}
		for p := d.parent; p >= 0; p = defs[p].parent {
			for _, e := range defs[p].eq {
				inherited[e] = true
			}
		}
		for _, a := range s.all[i] {
			if a.settable() {
				settable = append(settable, a.name)
				if a.hasDflt {
					opt = append(opt, a.name)
				} else {
					req = append(req, a.name)
				}
				if !inherited[a.name] {
					eligible = append(eligible, a.name)
					if a.owner == i {
						own = append(own, a.name)
					}
				}
			}
		}
		// equality / serialization name a member function only now and then (EQUALITY_NOT_ATTRIBUTE / SERIALIZATION_NOT_ATTRIBUTE)
		isFn := map[string]bool{}
		if r.Intn(12) != 0 {
			for _, f := range s.funcs[i] {
				isFn[f.name] = true
			}
		}
		noFn := func(ns []string) []string {
			var out []string
			for _, n := range ns {
				if !isFn[n] {
					out = append(out, n)
				}
			}
			return out
		}
		own, eligible, req, opt = noFn(own), noFn(eligible), noFn(req), noFn(opt)
		dd := &defs[i]
		switch q := r.Intn(100); {
		case q < 45:
		case q < 60:
			if len(eligible) > 0 {
				dd.eqKind, dd.eq = "s", []string{eligible[r.Intn(len(eligible))]}
			}
		case q < 80:
			dd.eqKind, dd.eq = "l", subset(r, shuffle(r, own))
		case q < 92:
			dd.eqKind, dd.eq = "l", subset(r, shuffle(r, eligible))
		default:
			// anything: unknown names, constants, derived, inherited equality, repeats
			var allNames []string
			for _, a := range s.all[i] {
				allNames = append(allNames, a.name)
			}
			for _, f := range s.funcs[i] {
				allNames = append(allNames, f.name)
			}
			allNames = append(noFn(allNames), "zz")
			dd.eqKind = "l"
			for k := r.Intn(3); k >= 0; k-- {
				dd.eq = append(dd.eq, allNames[r.Intn(len(allNames))])
			}
		}
		switch q := r.Intn(10); {
		case q < 5:
		case q < 7:
			dd.eit = "t"
		default:
			dd.eit = "f"
		}
		switch q := r.Intn(100); {
		case q < 60:
		case q < 90:
			dd.hasSer, dd.ser = true, append(shuffle(r, req), shuffle(r, opt)...)
		case q < 95:
			dd.hasSer, dd.ser = true, subset(r, append(append([]string{}, req...), opt...))
		default:
			var allNames []string
			for _, a := range s.all[i] {
				allNames = append(allNames, a.name)
			}
			for _, f := range s.funcs[i] {
				allNames = append(allNames, f.name)
			}
			allNames = append(noFn(allNames), "zz")
			dd.hasSer = true
			for k := r.Intn(4); k > 0; k-- {
				dd.ser = append(dd.ser, allNames[r.Intn(len(allNames))]) // repeats included
			}
		}
		_ = settable
	}
	return defs
}

// ---- actions ------------------------------------------------------------------------------------------------------------------

// genNew: a construction for type t, mostly well-typed; `like` (optional) is an earlier construction to stay close to
func genNew(r *rand.Rand, s *spec, t int, like *action) action {
	pos := s.pos[t]
	req := s.req[t]
	vals := make([]val, len(pos))
	for i, p := range pos {
		vals[i] = witness(r, p.ty)
		if p.hasDflt && r.Intn(3) == 0 {
			vals[i] = p.dv // a value equal to the default (trailing-default trimming, makeValueHash)
		}
	}
	if like != nil && like.t == t {
		// copy what the earlier construction gave, then change at most one position
		for i, p := range pos {
			if v, ok := s.expectGet(like, p); ok {
				vals[i] = v
			}
		}
		if len(pos) > 0 && r.Intn(3) > 0 {
			i := r.Intn(len(pos))
			vals[i] = witness(r, pos[i].ty)
		}
	}
	if r.Intn(2) == 0 {
		n := len(pos)
		if n > req {
			switch r.Intn(3) {
			case 0:
				n = req
			case 1:
				n = req + r.Intn(n-req+1)
			}
		}
		a := action{op: "newpos", t: t, vals: vals[:n]}
		switch r.Intn(25) {
		case 0:
			if n > 0 {
				a.vals = a.vals[:n-1-r.Intn(n)] // too few (or still enough)
			}
		case 1:
			a.vals = append(append([]val{}, a.vals...), anyVal(r)) // too many
		case 2:
			if n > 0 {
				a.vals = append([]val{}, a.vals...)
				a.vals[r.Intn(n)] = anyVal(r) // possibly ill-typed
			}
		}
		return a
	}
	a := action{op: "newnamed", t: t}
	order := r.Perm(len(pos))
	for _, i := range order {
		if i >= req && pos[i].hasDflt && r.Intn(2) == 0 {
			continue
		}
		a.names = append(a.names, pos[i].name)
		a.vals = append(a.vals, vals[i])
	}
	switch r.Intn(25) {
	case 0:
		if len(a.names) > 0 {
			k := r.Intn(len(a.names))
			a.names = append(append([]string{}, a.names[:k]...), a.names[k+1:]...)
			a.vals = append(append([]val{}, a.vals[:k]...), a.vals[k+1:]...)
		}
	case 1:
		names := []string{"zz"}
		for _, x := range s.all[t] {
			names = append(names, x.name) // constants, derived, unlisted
		}
		if n := names[r.Intn(len(names))]; !repeats(append(append([]string{}, a.names...), n)) {
			a.names = append(a.names, n)
			a.vals = append(a.vals, anyVal(r))
		}
	case 2:
		if len(a.vals) > 0 {
			a.vals[r.Intn(len(a.vals))] = anyVal(r)
		}
	}
	return a
}

// script: `tuples` constructions over the chain's types followed by observations of all of them
func script(r *rand.Rand, s *spec, tuples int) []action {
	var acts []action
	var news []action
	nt := len(s.defs)
	for k := 0; k < tuples; k++ {
		t := r.Intn(nt)
		var like *action
		if len(news) > 0 && r.Intn(2) == 0 {
			like = &news[r.Intn(len(news))]
			if r.Intn(3) > 0 {
				t = like.t
			}
		}
		a := genNew(r, s, t, like)
		news = append(news, a)
		acts = append(acts, a)
	}
	no := len(news)
	if no == 0 {
		return acts
	}
	for k := 0; k < 2; k++ {
		o := r.Intn(no)
		for _, a := range s.all[news[o].t] {
			acts = append(acts, action{op: "get", o: o, name: a.name})
		}
		if r.Intn(4) == 0 {
			acts = append(acts, action{op: "get", o: o, name: "zz"})
		}
	}
	for o := 0; o < no; o++ {
		if o < 3 || r.Intn(2) == 0 {
			acts = append(acts, action{op: "inithash", o: o})
		}
	}
	for k := 0; k < no+2; k++ {
		acts = append(acts, action{op: "eq", o: r.Intn(no), o2: r.Intn(no)})
	}
	for k := 0; k < 3; k++ {
		acts = append(acts, action{op: "inst", t: r.Intn(nt), o: r.Intn(no)})
	}
	if nt >= 3 {
		// the whole instance-of matrix: every type against every object (every ancestor accepts, nothing else does)
		for t := 0; t < nt; t++ {
			for o := 0; o < no; o++ {
				acts = append(acts, action{op: "inst", t: t, o: o})
			}
		}
	}
	return acts
}

// ---- exhaustive small universe ----------------------------------------------------------------------------------------------

func iv(i int64) *val { return &val{k: "i", i: i} }

// every single definition with attribute `a` from 6 shapes, an optional second attribute `b` from 6 shapes, 4 equality
// forms, 2 include-type forms and 3 serialization forms, each with one fixed script derived from the definition
func exhaustive(g *core.G) {
	tInt := &ty{k: "int"}
	tOpt := &ty{k: "opt", elt: tInt}
	shapes := func(n string) []attr {
		return []attr{
			{name: n, ty: tInt, kind: "n"},
			{name: n, ty: tInt, kind: "n", dflt: iv(1)},
			{name: n, ty: tOpt, kind: "n"},
			{name: n, ty: tInt, kind: "g"},
			{name: n, ty: tInt, kind: "c", dflt: iv(7)},
			{name: n, ty: tInt, kind: "d"},
		}
	}
	type eqf struct {
		k  string
		ns []string
	}
	for _, a := range shapes("a") {
		for bi, b := range append([]attr{{}}, shapes("b")...) {
			attrs := []attr{a}
			if bi > 0 {
				attrs = append(attrs, b)
			}
			eqs := []eqf{{"-", nil}, {"s", []string{"a"}}, {"l", []string{}}}
			sers := [][]string{nil, {"a"}}
			if bi > 0 {
				eqs = append(eqs, eqf{"l", []string{"b", "a"}})
				sers = [][]string{nil, {"a", "b"}, {"b", "a"}}
			}
			for _, eq := range eqs {
				for _, eit := range []string{"-", "f"} {
					for _, ser := range sers {
						d := def{parent: -1, attrs: attrs, eqKind: eq.k, eq: eq.ns, eit: eit, ser: ser, hasSer: ser != nil}
						defs := []def{d}
						s := mkSpec(defs)
						var acts []action
						pos := s.pos[0]
						// all-given, required-only, all-given with defaults, named all, named required-only, a variation
						full := make([]val, len(pos))
						dfl := make([]val, len(pos))
						alt := make([]val, len(pos))
						var names []string
						for i, p := range pos {
							full[i] = val{k: "i", i: int64(2 + i)}
							alt[i] = val{k: "i", i: int64(2 + i)}
							dfl[i] = full[i]
							if p.hasDflt {
								dfl[i] = p.dv
							}
							names = append(names, p.name)
						}
						if len(pos) > 0 {
							alt[len(pos)-1] = val{k: "i", i: 9}
						}
						req := s.req[0]
						acts = append(acts,
							action{op: "newpos", t: 0, vals: full},
							action{op: "newpos", t: 0, vals: full[:req]},
							action{op: "newpos", t: 0, vals: dfl},
							action{op: "newnamed", t: 0, names: names, vals: full},
							action{op: "newnamed", t: 0, names: names[:req], vals: full[:req]},
							action{op: "newpos", t: 0, vals: alt})
						for o := 0; o < 6; o++ {
							acts = append(acts, action{op: "inithash", o: o})
						}
						for _, x := range attrs {
							acts = append(acts, action{op: "get", o: 1, name: x.name}, action{op: "get", o: 3, name: x.name})
						}
						for _, pr := range [][2]int{{0, 3}, {1, 2}, {1, 4}, {0, 5}, {0, 1}, {2, 4}} {
							acts = append(acts, action{op: "eq", o: pr[0], o2: pr[1]})
						}
						acts = append(acts, action{op: "inst", t: 0, o: 0})
						g.Emit(opLine(defs, acts))
					}
				}
			}
		}
	}
}

// every two-level chain: parent attribute `a` from the 6 shapes with equality absent / on `a`, child attribute `b` from the
// 6 shapes (or none) with equality absent / on `b`, include-type absent / false on both; objects of the child that
// differ from a base tuple in exactly one position (so that every equality attribute, inherited or own, at whatever
// position the layout gives it, decides at least one comparison), their named twins, the required-only forms, and
// objects of the parent
func exhaustive2(g *core.G) {
	tInt := &ty{k: "int"}
	tOpt := &ty{k: "opt", elt: tInt}
	shapes := func(n string) []attr {
		return []attr{
			{name: n, ty: tInt, kind: "n"},
			{name: n, ty: tInt, kind: "n", dflt: iv(1)},
			{name: n, ty: tOpt, kind: "n"},
			{name: n, ty: tInt, kind: "g"},
			{name: n, ty: tInt, kind: "c", dflt: iv(7)},
			{name: n, ty: tInt, kind: "d"},
		}
	}
	for _, a := range shapes("a") {
		for _, peq := range []string{"-", "s"} {
			for bi, b := range append([]attr{{}}, shapes("b")...) {
				for _, ceq := range []string{"-", "s"} {
					if ceq == "s" && bi == 0 {
						continue
					}
					for _, eit := range []string{"-", "f"} {
						p := def{parent: -1, attrs: []attr{a}, eqKind: peq, eit: eit}
						if peq == "s" {
							p.eq = []string{"a"}
						}
						c := def{parent: 0, eqKind: ceq, eit: eit}
						if bi > 0 {
							c.attrs = []attr{b}
						}
						if ceq == "s" {
							c.eq = []string{"b"}
						}
						defs := []def{p, c}
						s := mkSpec(defs)
						var acts []action
						for t := 1; t >= 0; t-- {
							pos := s.pos[t]
							base := make([]val, len(pos))
							var names []string
							for i, q := range pos {
								base[i] = val{k: "i", i: int64(2 + i)}
								names = append(names, q.name)
							}
							acts = append(acts, action{op: "newpos", t: t, vals: base},
								action{op: "newnamed", t: t, names: names, vals: base},
								action{op: "newpos", t: t, vals: base[:s.req[t]]})
							for j := range pos {
								v := append([]val{}, base...)
								v[j] = val{k: "i", i: 9}
								acts = append(acts, action{op: "newpos", t: t, vals: v})
							}
						}
						n := 0
						for _, x := range acts {
							if x.op == "newpos" || x.op == "newnamed" {
								n++
							}
						}
						for o := 1; o < n; o++ {
							acts = append(acts, action{op: "eq", o: 0, o2: o})
						}
						acts = append(acts, action{op: "inithash", o: 0}, action{op: "inst", t: 0, o: 0}, action{op: "inst", t: 1, o: n - 1})
						g.Emit(opLine(defs, acts))
					}
				}
			}
		}
	}
}

// deep chains, exhaustively over a small universe: inheritance depth 0..4 (1..5 levels); level i declares attribute n<i>,
// its shape rotating through the 6 shapes; equality declared nowhere / by the root / by every level on its own attribute /
// by the leaf only; the root's attribute overridden nowhere / by the leaf / by a middle level / by every level (each
// override says `override => true`, a constant is overridden by a constant, everything else by a normal attribute with a
// default); equality_include_type absent or false on all levels.  For EVERY level: three objects (all positions given,
// named with the required ones only, last position changed); then the whole instance-of matrix (every type x every
// object: every ancestor accepts, no descendant or stranger does), Get of every attribute on the leaf's objects,
// init-hashes, and Equals over all pairs (same type, ancestor/descendant).
func exhaustiveDeep(g *core.G) {
	tInt := &ty{k: "int"}
	tOpt := &ty{k: "opt", elt: tInt}
	shape := func(n string, k int) attr {
		return []attr{
			{name: n, ty: tInt, kind: "n"},
			{name: n, ty: tInt, kind: "n", dflt: iv(1)},
			{name: n, ty: tOpt, kind: "n"},
			{name: n, ty: tInt, kind: "g"},
			{name: n, ty: tInt, kind: "c", dflt: iv(7)},
			{name: n, ty: tInt, kind: "d"},
		}[k%6]
	}
	overriding := func(root attr, lvl int) attr {
		if root.kind == "c" {
			return attr{name: root.name, ty: tInt, kind: "c", dflt: iv(int64(8 + lvl)), override: true}
		}
		return attr{name: root.name, ty: tInt, kind: "n", dflt: iv(int64(5 + lvl)), override: true}
	}
	seen := map[string]bool{}
	for L := 1; L <= 5; L++ {
		for rot := 0; rot < 6; rot++ {
			for _, eqMode := range []string{"none", "root", "each", "leaf"} {
				for _, ov := range []string{"none", "leaf", "mid", "all"} {
					if L == 1 && ov != "none" {
						continue
					}
					eit := "-"
					if (rot+L)%2 == 0 {
						eit = "f"
					}
					var defs []def
					for i := 0; i < L; i++ {
						own := shape(fmt.Sprintf("n%d", i), rot+i)
						d := def{parent: i - 1, attrs: []attr{own}, eqKind: "-", eit: eit}
						if i > 0 && (ov == "all" || (ov == "leaf" && i == L-1) || (ov == "mid" && i == L/2 && i < L-1)) {
							d.attrs = append(d.attrs, overriding(defs[0].attrs[0], i))
						}
						if eqMode == "each" || (eqMode == "root" && i == 0) || (eqMode == "leaf" && i == L-1) {
							d.eqKind = "l"
							if own.kind != "c" && own.kind != "d" {
								d.eq = []string{own.name}
							}
						}
						defs = append(defs, d)
					}
					s := mkSpec(defs)
					var acts []action
					var objT []int
					for t := 0; t < L; t++ {
						pos := s.pos[t]
						base := make([]val, len(pos))
						var names []string
						for i, q := range pos {
							base[i] = val{k: "i", i: int64(2 + i)}
							names = append(names, q.name)
						}
						alt := append([]val{}, base...)
						if len(alt) > 0 {
							alt[len(alt)-1] = val{k: "i", i: 9}
						}
						req := s.req[t]
						acts = append(acts, action{op: "newpos", t: t, vals: base},
							action{op: "newnamed", t: t, names: names[:req], vals: base[:req]},
							action{op: "newpos", t: t, vals: alt})
						objT = append(objT, t, t, t)
					}
					no := len(objT)
					for t := 0; t < L; t++ {
						for o := 0; o < no; o++ {
							acts = append(acts, action{op: "inst", t: t, o: o})
						}
					}
					for _, a := range s.all[L-1] {
						for o := no - 3; o < no; o++ {
							acts = append(acts, action{op: "get", o: o, name: a.name})
						}
					}
					for o := 0; o < no; o++ {
						acts = append(acts, action{op: "inithash", o: o})
					}
					for o := 0; o < no; o++ {
						for o2 := 0; o2 < no; o2++ {
							// same type, or the leaf against everything, or neighbours in the chain
							if objT[o] == objT[o2] || objT[o] == L-1 || objT[o2] == L-1 || objT[o]+1 == objT[o2] {
								acts = append(acts, action{op: "eq", o: o, o2: o2})
							}
						}
					}
					line := opLine(defs, acts)
					if !seen[line] {
						seen[line] = true
						g.Emit(line)
						if len(seen)%5 == 0 {
							// the same deep chain with a member function per level, function overrides and annotations
							g.Emit("@objd " + strings.TrimPrefix(line, "obj "))
						}
					}
				}
			}
		}
	}
}

// every type of the alphabet sample as the type of an attribute `a` (required / with a default / given_or_derived / constant)
// next to `b => {Integer, 1}`: constructions that give `a` positionally and by name — a witness, undef (for NotUndef[T] the
// init Struct of the named constructor says Optional[T]: the two constructors part ways), and six fixed value shapes —, then
// Get, init-hashes and Equals over all of them
func exhaustiveTypes(g *core.G) {
	shapes := []val{{k: "u"}, {k: "i", i: 1}, {k: "s", s: "x"}, {k: "f", i: 2}, {k: "a", es: []val{}}, {k: "a", es: []val{{k: "i", i: 1}, {k: "u"}}}}
	for _, t := range tyAll {
		for _, kind := range []string{"n", "nd", "g", "c"} {
			a := attr{name: "a", ty: t, kind: kind}
			if kind == "nd" || kind == "c" {
				w := witness(g.Rng, t)
				a.dflt = &w
				if kind == "nd" {
					a.kind = "n"
				}
			}
			defs := []def{{parent: -1, attrs: []attr{a, {name: "b", ty: tInt, kind: "n", dflt: iv(1)}}, eqKind: "-", eit: "-"}}
			s := mkSpec(defs)
			var acts []action
			settable := kind != "c"
			give := func(v val) {
				if settable {
					acts = append(acts, action{op: "newpos", t: 0, vals: []val{v}}, action{op: "newnamed", t: 0, names: []string{"a"}, vals: []val{v}})
				}
			}
			w1, w2 := witness(g.Rng, t), witness(g.Rng, t)
			give(w1)
			give(w2)
			for _, v := range shapes {
				give(v)
			}
			acts = append(acts, action{op: "newpos", t: 0}, action{op: "newnamed", t: 0})
			if settable && len(s.pos[0]) == 2 {
				acts = append(acts, action{op: "newpos", t: 0, vals: []val{w1, {k: "i", i: 1}}}, action{op: "newnamed", t: 0, names: []string{"b", "a"}, vals: []val{{k: "i", i: 5}, w1}})
			}
			n := len(acts)
			for o := 0; o < n; o++ {
				acts = append(acts, action{op: "get", o: o, name: "a"}, action{op: "inithash", o: o})
			}
			for o := 1; o < n; o++ {
				acts = append(acts, action{op: "eq", o: 0, o2: o}, action{op: "eq", o: o, o2: o - 1})
			}
			g.Emit(opLine(defs, acts))
		}
	}
	// overrides that narrow (or do not narrow) the type, over the sample: parent a: T, child a: U with override => true
	for _, t := range tyAll {
		for _, u := range tyAll {
			if g.Thorough() || g.Rng.Intn(4) == 0 {
				defs := []def{{parent: -1, attrs: []attr{{name: "a", ty: t, kind: "n"}}, eqKind: "-", eit: "-"},
					{parent: 0, attrs: []attr{{name: "a", ty: u, kind: "n", override: true}}, eqKind: "-", eit: "-"}}
				w := witness(g.Rng, u)
				g.Emit(opLine(defs, []action{{op: "newpos", t: 1, vals: []val{w}}, {op: "newnamed", t: 1, names: []string{"a"}, vals: []val{w}},
					{op: "get", o: 0, name: "a"}, {op: "eq", o: 0, o2: 1}, {op: "inst", t: 0, o: 0}, {op: "inithash", o: 1}}))
			}
		}
	}
}

// type parameters, a small universe exhaustively: one definition with `a => Integer` and the parameter's attribute `p` in
// four shapes (Optional[Integer] / Integer with default 3 / required Integer / none), type_parameters {p => Integer} /
// {p => String} / {q => Integer} / {p => Integer, q => String}; equality absent / on `a` / on `p`; include-type absent / false;
// constructions that leave `p` out, give it its default and give it another value, by position and by name (a parameter is
// bound when the value is given and is not the default: the instance then has the type T[p => v]); all pairs compared, all
// init-hashes, instance-of; then the two-level forms (parameter declared by the parent, attribute by the child, and the
// refused re-declaration)
func exhaustiveParams(g *core.G) {
	tOptI := &ty{k: "opt", elt: tInt}
	pShapes := []*attr{{name: "p", ty: tOptI, kind: "n"}, {name: "p", ty: tInt, kind: "n", dflt: iv(3)}, {name: "p", ty: tInt, kind: "n"}, nil}
	paramSets := [][]attr{{{name: "p", ty: tInt}}, {{name: "p", ty: tStr}}, {{name: "q", ty: tInt}}, {{name: "p", ty: tInt}, {name: "q", ty: tStr}}}
	for _, ps := range pShapes {
		for _, params := range paramSets {
			for _, eq := range []string{"-", "a", "p"} {
				if eq == "p" && ps == nil {
					continue
				}
				for _, eit := range []string{"-", "f"} {
					d := def{parent: -1, attrs: []attr{{name: "a", ty: tInt, kind: "n"}}, eqKind: "-", eit: eit, params: params}
					if ps != nil {
						d.attrs = append(d.attrs, *ps)
					}
					if eq != "-" {
						d.eqKind, d.eq = "l", []string{eq}
					}
					defs := []def{d}
					s := mkSpec(defs)
					var acts []action
					one, five := val{k: "i", i: 1}, val{k: "i", i: 5}
					if ps == nil {
						acts = append(acts, action{op: "newpos", t: 0, vals: []val{one}}, action{op: "newnamed", t: 0, names: []string{"a"}, vals: []val{one}})
					} else {
						// the positions follow the layout (required first)
						mk := func(pv *val, named bool) action {
							var names []string
							var vals []val
							for _, q := range s.pos[0] {
								switch {
								case q.name == "a":
									names, vals = append(names, "a"), append(vals, one)
								case pv != nil:
									names, vals = append(names, "p"), append(vals, *pv)
								}
							}
							if named {
								return action{op: "newnamed", t: 0, names: names, vals: vals}
							}
							return action{op: "newpos", t: 0, vals: vals}
						}
						var dfl *val
						if ps.dflt != nil {
							dfl = ps.dflt
						} else if ps.ty.k == "opt" {
							dfl = &val{k: "u"}
						}
						for _, named := range []bool{false, true} {
							if dfl != nil {
								acts = append(acts, mk(nil, named), mk(dfl, named))
							}
							acts = append(acts, mk(&five, named), mk(&val{k: "i", i: 6}, named), mk(&val{k: "s", s: "x"}, named))
						}
					}
					n := len(acts)
					for o := 0; o < n; o++ {
						acts = append(acts, action{op: "inithash", o: o}, action{op: "get", o: o, name: "p"}, action{op: "inst", t: 0, o: o})
						for o2 := 0; o2 < n; o2++ {
							acts = append(acts, action{op: "eq", o: o, o2: o2})
						}
					}
					g.Emit(opLine(defs, acts))
				}
			}
		}
	}
	// two levels
	for _, childParams := range [][]attr{nil, {{name: "p", ty: tInt}}, {{name: "b", ty: tInt}}} {
		for _, eit := range []string{"-", "f"} {
			defs := []def{
				{parent: -1, attrs: []attr{{name: "a", ty: tInt, kind: "n"}}, eqKind: "-", eit: eit, params: []attr{{name: "p", ty: tInt}}},
				{parent: 0, attrs: []attr{{name: "p", ty: tOptI, kind: "n"}, {name: "b", ty: tInt, kind: "n", dflt: iv(0)}}, eqKind: "-", eit: eit, params: childParams}}
			one, five, u := val{k: "i", i: 1}, val{k: "i", i: 5}, val{k: "u"}
			acts := []action{
				{op: "newpos", t: 1, vals: []val{one}}, {op: "newpos", t: 1, vals: []val{one, five}}, {op: "newpos", t: 1, vals: []val{one, u}},
				{op: "newpos", t: 1, vals: []val{one, five, {k: "i", i: 7}}}, {op: "newpos", t: 1, vals: []val{one, u, {k: "i", i: 7}}},
				{op: "newnamed", t: 1, names: []string{"a"}, vals: []val{one}}, {op: "newnamed", t: 1, names: []string{"a", "p"}, vals: []val{one, five}},
				{op: "newnamed", t: 1, names: []string{"a", "p"}, vals: []val{one, u}}, {op: "newnamed", t: 1, names: []string{"p", "b", "a"}, vals: []val{five, {k: "i", i: 7}, one}},
				{op: "newpos", t: 0, vals: []val{one}}, {op: "newnamed", t: 0, names: []string{"a"}, vals: []val{one}}}
			n := len(acts)
			for o := 0; o < n; o++ {
				acts = append(acts, action{op: "inithash", o: o}, action{op: "inst", t: 0, o: o}, action{op: "inst", t: 1, o: o})
				for o2 := 0; o2 < n; o2++ {
					acts = append(acts, action{op: "eq", o: o, o2: o2})
				}
			}
			g.Emit(opLine(defs, acts))
		}
	}
}

// member functions and interfaces, a small universe exhaustively: chains of three levels over level shapes — nothing / an
// attribute (with a default, so `new(T)` builds an instance) / the function fx at Any / fx overridden at the same or at the
// narrower type Integer / a second function fy —, plus a stranger root; one instance per type and the WHOLE instance-of
// matrix: an interface (no attributes along the chain, functions) accepts exactly the types that have all its functions at
// equal types — its own subtypes included or not (known finding C17-iface-override-covariant) —, every other type its
// descendants
func exhaustiveFuncs(g *core.G) {
	type shape struct {
		attr  bool
		funcs []fn
	}
	fx := func(t *ty, o bool) fn { return fn{name: "fx", ret: t, override: o} }
	fy := fn{name: "fy", ret: tInt}
	roots := []shape{{}, {attr: true}, {funcs: []fn{fx(tAny, false)}}, {funcs: []fn{fx(tAny, false), fy}}, {attr: true, funcs: []fn{fx(tAny, false)}}}
	mids := []shape{{}, {attr: true}, {funcs: []fn{fx(tAny, true)}}, {funcs: []fn{fx(tInt, true)}}, {funcs: []fn{fy}}, {attr: true, funcs: []fn{fx(tInt, true)}}}
	leaves := []shape{{}, {attr: true}, {funcs: []fn{fx(tInt, true)}}}
	strangers := []shape{{funcs: []fn{fx(tAny, false)}}, {funcs: []fn{fx(tInt, false)}}, {funcs: []fn{fy, fx(tAny, false)}}, {attr: true, funcs: []fn{fx(tAny, false), fy}}}
	mk := func(sh shape, parent, i int) def {
		d := def{parent: parent, eqKind: "-", eit: "-", funcs: sh.funcs}
		if sh.attr {
			d.attrs = []attr{{name: fmt.Sprintf("n%d", i), ty: tInt, kind: "n", dflt: iv(0)}}
		}
		return d
	}
	k := 0
	for _, r0 := range roots {
		for _, m := range mids {
			for _, l := range leaves {
				// an override needs the function in the chain; a fresh declaration needs it absent
				has := func(shs []shape, name string) bool {
					for _, sh := range shs {
						for _, f := range sh.funcs {
							if f.name == name {
								return true
							}
						}
					}
					return false
				}
				ok := true
				for _, f := range m.funcs {
					ok = ok && f.override == has([]shape{r0}, f.name)
				}
				for _, f := range l.funcs {
					ok = ok && f.override == has([]shape{r0, m}, f.name)
				}
				if !ok {
					continue
				}
				st := strangers[k%len(strangers)]
				k++
				defs := []def{mk(r0, -1, 0), mk(m, 0, 1), mk(l, 1, 2), mk(st, -1, 3)}
				var acts []action
				for t := range defs {
					acts = append(acts, action{op: "newpos", t: t})
				}
				for t := range defs {
					for o := range defs {
						acts = append(acts, action{op: "inst", t: t, o: o})
					}
				}
				acts = append(acts, action{op: "eq", o: 0, o2: 3}, action{op: "inithash", o: 2})
				g.Emit(opLine(defs, acts))
			}
		}
	}
}

// ---- entry --------------------------------------------------------------------------------------------------------------------

// attribute-less types (pcore treats a type without attributes whose ancestors have none either as an INTERFACE, matched
// structurally): chains in which members come from `constants` only, or from nowhere — the instance relation along the chain,
// in both directions, for every position of the constants-only type
func genInterfaces(g *core.G) {
	none := "() - - -"
	consts := "() - - - (k (c (i 3)))"
	attr := "((a int n -)) - - -"
	shapes := [][]string{
		{none, consts}, {none, none}, {consts, none}, {consts, consts}, {none, consts, none}, {none, none, consts}, {consts, none, none},
		{none, attr}, {attr, none}, {attr, consts}, {none, consts, attr}, {none, attr, consts},
	}
	for _, sh := range shapes {
		var ds, acts []string
		for i, body := range sh {
			parent := "-"
			if i > 0 {
				parent = fmt.Sprint(i - 1)
			}
			ds = append(ds, "("+parent+" "+body+")")
			if strings.HasPrefix(body, "((a") || (i > 0 && strings.HasPrefix(sh[0], "((a")) || (i > 1 && strings.HasPrefix(sh[1], "((a")) {
				acts = append(acts, fmt.Sprintf("(newpos %d (i %d))", i, i+1))
			} else {
				acts = append(acts, fmt.Sprintf("(newpos %d)", i))
			}
		}
		for i := range sh {
			for j := range sh {
				acts = append(acts, fmt.Sprintf("(inst %d %d)", i, j))
			}
		}
		g.Emit("obj (" + strings.Join(ds, " ") + ") (" + strings.Join(acts, " ") + ")")
	}
}

func gen(g *core.G) {
	genAlphabet(g)
	exhaustive(g)
	exhaustive2(g)
	exhaustiveDeep(g)
	exhaustiveTypes(g)
	exhaustiveParams(g)
	exhaustiveFuncs(g)
	genTParam(g)
	genInterfaces(g)
	genIface(g)
	genGoObj(g)
	genIfaceX(g)
	genNested(g)
	chains, perChain, tuples := 800, 4, 5
	if g.Thorough() {
		chains, perChain = 40000, 2
	}
	for i := 0; i < chains; i++ {
		defs := genChain(g.Rng)
		s := mkSpec(defs)
		for k := 0; k < perChain; k++ {
			n := tuples
			if len(defs) > 3 {
				n += 3 // deep chains: enough objects to meet several levels
			}
			line := opLine(defs, script(g.Rng, s, n))
			g.Emit(line)
			if k == 0 && i%3 == 0 {
				g.Emit("@objd " + strings.TrimPrefix(line, "obj ")) // the same with functions and annotations in every definition
			}
		}
	}
	// malformed stream: actions on types/objects that do not exist, definitions whose parent was rejected
	for i := 0; i < 40*g.Scale; i++ {
		defs := genChain(g.Rng)
		s := mkSpec(defs)
		acts := script(g.Rng, s, 3)
		for k := range acts {
			if g.Rng.Intn(4) == 0 {
				acts[k].o += 2
				acts[k].t += g.Rng.Intn(2)
			}
		}
		line := opLine(defs, acts)
		if g.Rng.Intn(3) == 0 {
			line = strings.Replace(line, " int ", " int"+strconv.Itoa(g.Rng.Intn(3))+" ", 1) // unknown type atom: bad-op on both sides
		}
		g.Emit(line)
	}
}
