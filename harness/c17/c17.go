// Package c17: object types cohere (property C17).
//
// One op, self-contained (every op defines its types in a fresh forked context under unique names):
//
//   obj (D0 D1 …) (A0 A1 …)
//
//   D    ::= (PARENT (ATTR*) EQ EIT SER [(k (NAME VAL)*)] [(p (NAME TY)*)] [(fn (NAME TY [o] [f])*)])
//                                                definition i is named T<i>; PARENT ::= - | <index of an earlier definition>;
//                                                the optional elements are `constants => {NAME => VAL, …}` and
//                                                `type_parameters => {NAME => TY, …}` and `functions => {NAME => Callable[[0,0],TY], …}`
//                                                (`o` / `f`: override / final => true; a function never shares its name with
//                                                an attribute or constant of its chain, equality / serialization name none)
//   ATTR ::= (NAME TY KIND DFLT [o] [f|nf])
//                                                NAME: plain member name (atom); KIND ::= n | c | d | g | r
//                                                (normal, constant, derived, given_or_derived, reference); DFLT ::= - | VAL;
//                                                `o` = `override => true`, `f` / `nf` = `final => true` / `false`
//   TY   ::= int | str | bool | any | float | undef | (opt TY) | (nu TY) | (var TY TY) | (arr TY)
//                                                Integer String Boolean Any Float Undef Optional[T] NotUndef[T] Variant[A,B] Array[T]
//   VAL  ::= (i N) | (s xHEX) | (b t|f) | u | (f N) | (a VAL*)          (f N): the Float N/4;  (a …): an Array
//   EQ   ::= - | (s NAME) | (l NAME*)            `equality` absent / given as a string / given as an array
//   EIT  ::= - | t | f                           `equality_include_type`
//   SER  ::= - | (l NAME*)                       `serialization`
//   A    ::= (newpos Ti VAL*) | (newnamed Ti (NAME VAL)*)       each creates object slot o<k> (k = number of earlier new…)
//          | (get Ok NAME) | (inithash Ok) | (eq Oj Ok) | (inst Ti Ok)
//
// Every definition is rendered twice: as parsed text (`type X = Object[{…}]`, `type Y = X{…}` through c.ParseType +
// px.AddTypes) and as an init-hash (types.MakeObjectType + px.AddTypes); the action list is run against both and the
// two observations must agree (class `renderings-differ`).
//
// Out:  `def ok|reported CODE … ; <result of A0> ; <result of A1> … ; reinit same|differs|<ok|reported CODE …>`
//       (actions and the re-creation of the types from their InitHash() are skipped when a definition is rejected)
//   newpos/newnamed → `obj` | `reported CODE` | `fault`;  get → `(some VAL)` | `none`;  inithash → `(h (NAME VAL)*)`;
//   eq / inst → `t` | `f`;  an action naming an object slot that was not created → `noobj`.
//
// Pred (the property evaluated directly on the implementation, with the harness' own reading of the definition as the
// specification): classes pos-named-differ, inithash-roundtrip, get-wrong, get-constant, equality-wrong,
// equality-include-type, subtype-not-instance, ancestor-instance-of-sub, schema-admitted-rejected, new-rejected,
// type-hash-key (the distinct types of an op are distinct keys of a Hash),
// renderings-differ, reinit-differs (the types re-created from their own InitHash() behave differently), fault.
//
// Implementation-only twin `@objd …` (same syntax): every definition additionally declares a member function, re-declares
// its parent's (override => true) on odd levels, and carries a type-level annotation; same predicates, no model.
package c17

import (
	"fmt"
	"os"
	"runtime/debug"
	"sort"
	"strconv"
	"strings"
	"sync/atomic"

	"verif/harness/core"
	"verif/harness/sx"

	"github.com/lyraproj/issue/issue"
	"github.com/lyraproj/pcore/px"
	"github.com/lyraproj/pcore/types"
)

func init() {
	core.Register(&core.Prop{
		ID:   "C17",
		Rule: "distinct op lines; non-trivial = all definitions accepted and at least one object was created",
		Gen:  gen,
		Exec: exec,
	})
}

// ---- syntax ----------------------------------------------------------------------------------------------

type val struct {
	k  string // i s b u f (a Float: i quarters) a (an Array: es)
	i  int64
	s  string
	b  bool
	es []val
}

func (v val) sexp() sx.Sexp {
	switch v.k {
	case "i":
		return sx.T("i", sx.Int(v.i))
	case "s":
		return sx.T("s", sx.Str(v.s))
	case "b":
		return sx.T("b", sx.Bool(v.b))
	case "f":
		return sx.T("f", sx.Int(v.i))
	case "a":
		xs := make([]sx.Sexp, len(v.es))
		for i, e := range v.es {
			xs[i] = e.sexp()
		}
		return sx.T("a", xs...)
	}
	return sx.A("u")
}

func (v val) String() string { return v.sexp().String() }

func (v val) px() px.Value {
	switch v.k {
	case "i":
		return types.WrapInteger(v.i)
	case "s":
		return types.WrapString(v.s)
	case "b":
		return types.WrapBoolean(v.b)
	case "f":
		return types.WrapFloat(float64(v.i) / 4)
	case "a":
		xs := make([]px.Value, len(v.es))
		for i, e := range v.es {
			xs[i] = e.px()
		}
		return types.WrapValues(xs)
	}
	return px.Undef
}

func (v val) text() string {
	switch v.k {
	case "i":
		return strconv.FormatInt(v.i, 10)
	case "s":
		return "'" + v.s + "'" // generator strings are [a-z0-9 ]* only
	case "b":
		return strconv.FormatBool(v.b)
	case "f":
		t := strconv.FormatFloat(float64(v.i)/4, 'f', -1, 64)
		if !strings.Contains(t, ".") {
			t += ".0"
		}
		return t
	case "a":
		xs := make([]string, len(v.es))
		for i, e := range v.es {
			xs[i] = e.text()
		}
		return "[" + strings.Join(xs, ", ") + "]"
	}
	return "undef"
}

func valOf(e sx.Sexp) val {
	if !e.IsList {
		if e.Atom == "u" {
			return val{k: "u"}
		}
		panic(fmt.Errorf("bad value %s", e))
	}
	a := e.Args()
	switch e.Tag() {
	case "i":
		return val{k: "i", i: a[0].MustInt()}
	case "s":
		return val{k: "s", s: a[0].MustStr()}
	case "b":
		return val{k: "b", b: a[0].MustBool()}
	case "f":
		return val{k: "f", i: a[0].MustInt()}
	case "a":
		v := val{k: "a", es: []val{}}
		for _, x := range a {
			v.es = append(v.es, valOf(x))
		}
		return v
	}
	panic(fmt.Errorf("bad value %s", e))
}

// valOfPx encodes a value coming out of pcore; anything outside the small value alphabet is printed as `(? …)`
func valOfPx(v px.Value) string {
	switch v := v.(type) {
	case px.Integer:
		return val{k: "i", i: v.Int()}.String()
	case px.StringValue:
		return val{k: "s", s: v.String()}.String()
	case px.Boolean:
		return val{k: "b", b: v.Bool()}.String()
	case px.Float:
		if q := v.Float() * 4; q == float64(int64(q)) {
			return val{k: "f", i: int64(q)}.String()
		}
	case *types.Array:
		xs := []string{}
		v.Each(func(e px.Value) { xs = append(xs, " "+valOfPx(e)) })
		return "(a" + strings.Join(xs, "") + ")"
	case *types.Hash:
		// a hash where a value is expected: the argument of a named construction that fell through to the positional signature
		// Hash equality does not depend on the order of the entries: printed (and identified by the model) sorted by key
		xs := []string{}
		v.EachPair(func(k, e px.Value) { xs = append(xs, " ("+k.String()+" "+valOfPx(e)+")") })
		sort.Strings(xs)
		return "(h" + strings.Join(xs, "") + ")"
	}
	if v == nil {
		return "nil"
	}
	if v.Equals(px.Undef, nil) {
		return "u"
	}
	return "(? " + sx.Str(v.String()).Atom + ")"
}

type ty struct {
	k    string // int str bool any float undef | opt nu (NotUndef) arr (Array): elt | var (Variant): elt, elt2
	elt  *ty
	elt2 *ty
}

func tyOf(e sx.Sexp) *ty {
	if !e.IsList {
		switch e.Atom {
		case "int", "str", "bool", "any", "float", "undef":
			return &ty{k: e.Atom}
		}
		panic(fmt.Errorf("bad type %s", e))
	}
	switch {
	case (e.Tag() == "opt" || e.Tag() == "nu" || e.Tag() == "arr") && len(e.List) == 2:
		return &ty{k: e.Tag(), elt: tyOf(e.List[1])}
	case e.Tag() == "var" && len(e.List) == 3:
		return &ty{k: "var", elt: tyOf(e.List[1]), elt2: tyOf(e.List[2])}
	}
	panic(fmt.Errorf("bad type %s", e))
}

func (t *ty) sexp() sx.Sexp {
	switch t.k {
	case "opt", "nu", "arr":
		return sx.T(t.k, t.elt.sexp())
	case "var":
		return sx.T("var", t.elt.sexp(), t.elt2.sexp())
	}
	return sx.A(t.k)
}

func (t *ty) text() string {
	switch t.k {
	case "int":
		return "Integer"
	case "str":
		return "String"
	case "bool":
		return "Boolean"
	case "any":
		return "Any"
	case "float":
		return "Float"
	case "undef":
		return "Undef"
	case "nu":
		return "NotUndef[" + t.elt.text() + "]"
	case "arr":
		return "Array[" + t.elt.text() + "]"
	case "var":
		return "Variant[" + t.elt.text() + ", " + t.elt2.text() + "]"
	}
	return "Optional[" + t.elt.text() + "]"
}

func (t *ty) px() px.Type {
	switch t.k {
	case "int":
		return types.DefaultIntegerType()
	case "str":
		return types.DefaultStringType()
	case "bool":
		return types.DefaultBooleanType()
	case "any":
		return types.DefaultAnyType()
	case "float":
		return types.DefaultFloatType()
	case "undef":
		return types.DefaultUndefType()
	case "nu":
		return types.NewNotUndefType(t.elt.px())
	case "arr":
		return types.NewArrayType(t.elt.px(), nil)
	case "var":
		return types.NewVariantType(t.elt.px(), t.elt2.px())
	}
	return types.NewOptionalType(t.elt.px())
}

// inst: the specification's reading of "v is an instance of t"
func (t *ty) inst(v val) bool {
	switch t.k {
	case "int":
		return v.k == "i"
	case "str":
		return v.k == "s"
	case "bool":
		return v.k == "b"
	case "any":
		return true
	case "float":
		return v.k == "f"
	case "undef":
		return v.k == "u"
	case "nu":
		return v.k != "u" && t.elt.inst(v)
	case "var":
		return t.elt.inst(v) || t.elt2.inst(v)
	case "arr":
		if v.k != "a" {
			return false
		}
		for _, e := range v.es {
			if !t.elt.inst(e) {
				return false
			}
		}
		return true
	}
	return v.k == "u" || t.elt.inst(v)
}

// asgSpec: the specification's reading of "every instance of u is an instance of t" on the type alphabet — a SUFFICIENT
// condition (rule by rule on the two type expressions; where it says no, the specification has no opinion on an override:
// the definition counts as malformed, outside the quantifier)
func asgSpec(t, u *ty) bool {
	acceptsUndef := func(x *ty) bool { return x.inst(val{k: "u"}) }
	switch {
	case t.k == "any":
		return true
	case u.k == "var":
		return asgSpec(t, u.elt) && asgSpec(t, u.elt2)
	case u.k == "opt":
		return acceptsUndef(t) && asgSpec(t, u.elt)
	case u.k == "nu" && !acceptsUndef(u.elt):
		return asgSpec(t, u.elt)
	}
	switch t.k {
	case "opt":
		return u.k == "undef" || asgSpec(t.elt, u)
	case "nu":
		return !acceptsUndef(u) && asgSpec(t.elt, u)
	case "var":
		return asgSpec(t.elt, u) || asgSpec(t.elt2, u)
	case "arr":
		return u.k == "arr" && asgSpec(t.elt, u.elt)
	}
	return t.k == u.k && t.elt == nil
}

type attr struct {
	name     string
	ty       *ty
	kind     string // n c d g r
	dflt     *val
	override bool
	final    string // "" (absent) | "f" (final => true) | "nf" (final => false)
}

// isFinal: declared, and implied for a constant
func (a *attr) isFinal() bool { return a.kind == "c" || a.final == "f" }

// fn: a member function `name => Callable[[0,0],ret]` (with `override => true` / `final => true`)
type fn struct {
	name     string
	ret      *ty
	override bool
	final    bool
	owner    int // (specification) the definition that declares it
}

func (f *fn) callable() px.Type {
	return types.NewCallableType(types.NewTupleType([]px.Type{}, types.NewIntegerType(0, 0)), f.ret.px(), nil)
}

type def struct {
	parent int // -1 = none
	attrs  []attr
	eqKind string // - s l
	eq     []string
	eit    string // - t f
	ser    []string
	hasSer bool
	consts []attr // `constants => {name => value}`: kind c, dflt = the value, ty = the type inferred from it
	params []attr // `type_parameters => {name => Type}`: name and ty only
	funcs  []fn   // `functions => {name => Callable[[0,0],ret], …}`
	// deco > 0 (implementation-only op `objd`): definition number deco-1 additionally declares a member function
	// fn<number> (and re-declares its parent's with `override => true` when the number is odd) and carries a type-level
	// annotation; neither has any bearing on construction, Get, init-hash or equality
	deco       int
	decoParent int
	decoFns    bool // declare the decoration's functions (not when a definition of the op has functions of its own)
}

type action struct {
	op    string
	t, o  int
	o2    int
	vals  []val
	names []string
	name  string
}

func repeats(ns []string) bool {
	seen := map[string]bool{}
	for _, n := range ns {
		if seen[n] {
			return true
		}
		seen[n] = true
	}
	return false
}

func natOf(e sx.Sexp) int {
	n := e.MustInt()
	if n < 0 || n > 1000 {
		panic(fmt.Errorf("bad index %d", n))
	}
	return int(n)
}

// nameOf: a member name (`\A[a-z_]\w*\z`); anything else is outside the universe (the schema rejects it)
func nameOf(e sx.Sexp) string {
	if e.IsList || !memberName(e.Atom) {
		panic(fmt.Errorf("bad name %s", e))
	}
	return e.Atom
}

func atomOf(e sx.Sexp) string {
	if e.IsList || e.Atom == "" {
		panic(fmt.Errorf("bad atom %s", e))
	}
	return e.Atom
}

func namesOf(es []sx.Sexp) []string {
	out := make([]string, len(es))
	for i, e := range es {
		out[i] = nameOf(e)
	}
	return out
}

func defOf(e sx.Sexp) def {
	if !e.IsList || len(e.List) < 5 || len(e.List) > 8 {
		panic(fmt.Errorf("bad definition %s", e))
	}
	tags := ""
	for _, x := range e.List[5:] {
		tags += x.Tag()
	}
	okTags := map[string]bool{"": true, "k": true, "p": true, "kp": true, "fn": true, "kfn": true, "pfn": true, "kpfn": true}
	if !okTags[tags] {
		panic(fmt.Errorf("bad definition %s", e))
	}
	d := def{parent: -1}
	tail := e.List[5:]
	if strings.HasSuffix(tags, "fn") {
		var ns []string
		for _, x := range tail[len(tail)-1].Args() {
			if !x.IsList || len(x.List) < 2 || len(x.List) > 4 {
				panic(fmt.Errorf("bad function %s", x))
			}
			f := fn{name: nameOf(x.List[0]), ret: tyOf(x.List[1])}
			if strings.Contains(f.ret.sexp().String(), "var") {
				panic(fmt.Errorf("a Variant in the return type of a function %s", x))
			}
			flags := x.List[2:]
			if len(flags) > 0 && atomOf(flags[0]) == "o" {
				f.override, flags = true, flags[1:]
			}
			if len(flags) > 0 && atomOf(flags[0]) == "f" {
				f.final, flags = true, flags[1:]
			}
			if len(flags) > 0 {
				panic(fmt.Errorf("bad function flags %s", x))
			}
			d.funcs = append(d.funcs, f)
			ns = append(ns, f.name)
		}
		if repeats(ns) {
			panic(fmt.Errorf("functions with a repeated key %s", e))
		}
		tail = tail[:len(tail)-1]
		tags = strings.TrimSuffix(tags, "fn")
	}
	if strings.HasSuffix(tags, "p") {
		var ns []string
		for _, kv := range tail[len(tail)-1].Args() {
			if !kv.IsList || len(kv.List) != 2 {
				panic(fmt.Errorf("bad type parameter %s", kv))
			}
			d.params = append(d.params, attr{name: nameOf(kv.List[0]), ty: tyOf(kv.List[1])})
			ns = append(ns, d.params[len(d.params)-1].name)
		}
		if repeats(ns) {
			panic(fmt.Errorf("type_parameters with a repeated key %s", e))
		}
	}
	if strings.HasPrefix(tags, "k") {
		for _, kv := range e.List[5].Args() {
			if !kv.IsList || len(kv.List) != 2 {
				panic(fmt.Errorf("bad constant %s", kv))
			}
			v := valOf(kv.List[1])
			var t *ty
			switch v.k {
			case "i":
				t = &ty{k: "int"}
			case "s":
				t = &ty{k: "str"}
			case "b":
				t = &ty{k: "bool"}
			case "f":
				t = &ty{k: "float"}
			case "u":
				t = &ty{k: "undef"}
			default:
				panic(fmt.Errorf("constant %s: the type inferred for an array is not in the alphabet", kv))
			}
			d.consts = append(d.consts, attr{name: nameOf(kv.List[0]), ty: t, kind: "c", dflt: &v})
		}
		ns := []string{}
		for _, k := range d.consts {
			ns = append(ns, k.name)
		}
		if repeats(ns) {
			panic(fmt.Errorf("constants with a repeated key %s", e))
		}
	}
	if p := e.List[0]; !(p.Atom == "-" && !p.IsList) {
		d.parent = natOf(p)
	}
	if !e.List[1].IsList {
		panic(fmt.Errorf("bad attribute list %s", e.List[1]))
	}
	for _, a := range e.List[1].List {
		if !a.IsList || len(a.List) < 4 || len(a.List) > 6 {
			panic(fmt.Errorf("bad attribute %s", a))
		}
		at := attr{name: nameOf(a.List[0]), ty: tyOf(a.List[1]), kind: atomOf(a.List[2])}
		flags := a.List[4:]
		if len(flags) > 0 && atomOf(flags[0]) == "o" {
			at.override = true
			flags = flags[1:]
		}
		if len(flags) > 0 && (atomOf(flags[0]) == "f" || atomOf(flags[0]) == "nf") {
			at.final = atomOf(flags[0])
			flags = flags[1:]
		}
		if len(flags) > 0 {
			panic(fmt.Errorf("bad attribute flags %s", a))
		}
		if strings.Index("ncdgr", at.kind) < 0 || len(at.kind) != 1 {
			panic(fmt.Errorf("bad kind %s", at.kind))
		}
		if dv := a.List[3]; !(dv.Atom == "-" && !dv.IsList) {
			v := valOf(dv)
			at.dflt = &v
		}
		d.attrs = append(d.attrs, at)
	}
	d.eqKind = "-"
	if q := e.List[2]; q.IsList {
		switch q.Tag() {
		case "s":
			if len(q.List) != 2 {
				panic(fmt.Errorf("bad equality %s", q))
			}
			d.eqKind = "s"
		case "l":
			d.eqKind = "l"
		default:
			panic(fmt.Errorf("bad equality %s", q))
		}
		d.eq = namesOf(q.Args())
	} else if q.Atom != "-" {
		panic(fmt.Errorf("bad equality %s", q))
	}
	d.eit = atomOf(e.List[3])
	if d.eit != "-" && d.eit != "t" && d.eit != "f" {
		panic(fmt.Errorf("bad equality_include_type %s", d.eit))
	}
	if s := e.List[4]; s.IsList {
		if s.Tag() != "l" {
			panic(fmt.Errorf("bad serialization %s", s))
		}
		d.hasSer = true
		d.ser = namesOf(s.Args())
	} else if s.Atom != "-" {
		panic(fmt.Errorf("bad serialization %s", s))
	}
	return d
}

func actionOf(e sx.Sexp) action {
	a := e.Args()
	switch e.Tag() {
	case "newpos":
		r := action{op: "newpos", t: natOf(a[0])}
		for _, v := range a[1:] {
			r.vals = append(r.vals, valOf(v))
		}
		return r
	case "newnamed":
		r := action{op: "newnamed", t: natOf(a[0])}
		for _, kv := range a[1:] {
			if !kv.IsList || len(kv.List) != 2 {
				panic(fmt.Errorf("bad entry %s", kv))
			}
			r.names = append(r.names, nameOf(kv.List[0]))
			r.vals = append(r.vals, valOf(kv.List[1]))
		}
		if repeats(r.names) {
			panic(fmt.Errorf("hash with a repeated key %s", e))
		}
		return r
	case "get":
		if len(a) == 2 {
			return action{op: "get", o: natOf(a[0]), name: nameOf(a[1])}
		}
	case "inithash":
		if len(a) == 1 {
			return action{op: "inithash", o: natOf(a[0])}
		}
	case "eq":
		if len(a) == 2 {
			return action{op: "eq", o: natOf(a[0]), o2: natOf(a[1])}
		}
	case "inst":
		if len(a) == 2 {
			return action{op: "inst", t: natOf(a[0]), o: natOf(a[1])}
		}
	}
	panic(fmt.Errorf("bad action %s", e))
}

// ---- the specification's reading of a definition chain ---------------------------------------------------------

// sattr: an attribute as the specification sees it after definition
type sattr struct {
	attr
	owner int
	// the attribute's type after definition: a given_or_derived attribute whose type rejects undef becomes Optional[T]
	ety *ty
	// effective default: given value, or undef for an Optional[...] type / a given_or_derived attribute
	hasDflt bool
	dv      val
}

func (a *sattr) settable() bool { return a.kind != "c" && a.kind != "d" }

type spec struct {
	defs []def
	all  [][]sattr  // per type: every attribute, inherited first, declaration order
	pos  [][]*sattr // per type: positional order of the settable attributes
	req  []int      // per type: number of required positions
	eqa  [][]string // per type: names that participate in equality (declared through the chain, or all settable ones)
	wf   []bool     // per type: the definition is well-formed (the specification expects it to be accepted)
	eit  []bool
	// per type: the type parameters, inherited first
	tparams [][]attr
	// per type: the member functions, inherited first, an overriding one in place (Functions(true)); whether the type is an
	// INTERFACE (no attributes, and the parent is one or — without a parent — it declares a function)
	funcs [][]fn
	iface []bool
	// per type: members(true) by name: "a" attribute | "f" function
	members []map[string]string
	deco    bool // every definition also declares functions (op `objd`): a type without attributes is an INTERFACE
}

// isInterface: with functions declared (op `objd`), a type that has no attributes and whose ancestors have none is an
// interface: pcore matches it structurally (by its functions), so whether a stranger is an instance is not judged
func (s *spec) isInterface(t int) bool {
	return (s.deco && len(s.all[t]) == 0) || s.iface[t]
}

// memberFn: the return type of the function member `name` of type t (nil: none, or the nearest member of that name is an
// attribute) — names never collide along a chain in the universe, so the functions of the chain decide
func (s *spec) memberFn(t int, name string) *ty {
	for _, a := range s.all[t] {
		if a.name == name {
			return nil
		}
	}
	for i := range s.funcs[t] {
		if s.funcs[t][i].name == name {
			return s.funcs[t][i].ret
		}
	}
	return nil
}

// implements: type t has every function of the interface p as a function member of an EQUAL type
func (s *spec) implements(t, p int) bool {
	for _, f := range s.funcs[p] {
		r := s.memberFn(t, f.name)
		if r == nil || r.sexp().String() != f.ret.sexp().String() {
			return false
		}
	}
	return true
}

func (s *spec) ancestorOrSelf(p, t int) bool {
	for t >= 0 {
		if t == p {
			return true
		}
		t = s.defs[t].parent
	}
	return false
}

func (s *spec) find(t int, name string) *sattr {
	for i := range s.all[t] {
		if s.all[t][i].name == name {
			return &s.all[t][i]
		}
	}
	return nil
}

var memberName = func(n string) bool {
	if n == "" || !(n[0] == '_' || n[0] >= 'a' && n[0] <= 'z') {
		return false
	}
	for _, c := range n {
		if !(c == '_' || c >= 'a' && c <= 'z' || c >= 'A' && c <= 'Z' || c >= '0' && c <= '9') {
			return false
		}
	}
	return true
}

func mkSpec(defs []def) *spec {
	s := &spec{defs: defs}
	for i, d := range defs {
		wf := true
		var all []sattr
		if d.parent >= 0 {
			if d.parent >= i {
				panic(fmt.Errorf("definition %d: parent %d is not an earlier definition", i, d.parent))
			}
			all = append(all, s.all[d.parent]...)
			wf = s.wf[d.parent]
		}
		inheritedIdx := map[string]int{}
		for k, a := range all {
			inheritedIdx[a.name] = k
		}
		own := map[string]bool{}
		for _, a := range d.attrs {
			if own[a.name] {
				panic(fmt.Errorf("definition %d: attribute %s declared twice (a hash literal with a repeated key)", i, a.name))
			}
			own[a.name] = true
		}
		decls := append([]attr{}, d.attrs...)
		for _, k := range d.consts {
			if own[k.name] {
				wf = false // both a constant and an attribute
			}
			_, k.override = inheritedIdx[k.name] // set by InitFromHash when the parent has a member of that name
			decls = append(decls, k)
		}
		for _, a := range decls {
			sa := sattr{attr: a, owner: i, ety: a.ty}
			switch a.kind {
			case "c":
				if a.dflt == nil || a.final == "nf" { // a constant is final
					wf = false
				}
			case "d", "g":
				if a.dflt != nil {
					wf = false
				}
			}
			if a.kind == "g" && !a.ty.inst(val{k: "u"}) {
				sa.ety = &ty{k: "opt", elt: a.ty}
			}
			if a.dflt != nil {
				if !a.ty.inst(*a.dflt) {
					wf = false
				}
				sa.hasDflt, sa.dv = true, *a.dflt
			} else if a.ty.k == "opt" || a.kind == "g" {
				sa.hasDflt, sa.dv = true, val{k: "u"}
			}
			if k, ok := inheritedIdx[a.name]; ok {
				// an overriding attribute takes the place of the one it overrides: it must say `override => true`, a final
				// member is overridden only constant by constant, and the type may only narrow
				pa := all[k]
				if !a.override || (pa.isFinal() && !(pa.kind == "c" && a.kind == "c")) || !asgSpec(pa.ety, sa.ety) {
					wf = false
				}
				all[k] = sa
			} else {
				if a.override {
					wf = false
				}
				all = append(all, sa)
			}
		}
		var tps []attr
		if d.parent >= 0 {
			tps = append(tps, s.tparams[d.parent]...)
		}
		for _, q := range d.params {
			for _, r := range tps {
				if r.name == q.name {
					wf = false // a type parameter cannot say `override => true`: re-declaring an inherited one is refused
				}
			}
			tps = append(tps, q)
		}
		s.tparams = append(s.tparams, tps)
		var fns []fn
		// members(true) of the parent: name -> "a" (attribute) | "f" (function); a level's functions are put after its
		// attributes, so a function replaces a constant of the same name
		kind := map[string]string{}
		if d.parent >= 0 {
			fns = append(fns, s.funcs[d.parent]...)
			for k, v := range s.members[d.parent] {
				kind[k] = v
			}
		}
		parentKind := map[string]string{}
		for k, v := range kind {
			parentKind[k] = v
		}
		// an attribute (or constant) cannot override a function
		for _, a := range decls {
			if parentKind[a.name] == "f" {
				wf = false
			}
		}
		for _, f := range d.funcs {
			f.owner = i
			k := -1
			for j := range fns {
				if fns[j].name == f.name {
					k = j
				}
			}
			// a function of the name of an `attributes` key is a MEMBER_NAME_CONFLICT (a `constants` key is not); a function
			// cannot override an attribute
			if own[f.name] || parentKind[f.name] == "a" {
				wf = false
			}
			if k >= 0 {
				// a proper override: `override => true`, the inherited function not final, the type accepted by the inherited one
				if !f.override || fns[k].final || !asgSpec(fns[k].ret, f.ret) {
					wf = false
				}
				fns[k] = f
			} else {
				if f.override && parentKind[f.name] != "a" {
					wf = false
				}
				fns = append(fns, f)
			}
		}
		for _, a := range decls {
			kind[a.name] = "a"
		}
		for _, f := range d.funcs {
			kind[f.name] = "f"
		}
		s.members = append(s.members, kind)
		// `equality` / `serialization` naming a member FUNCTION (no own attribute or constant of that name; an own function, or
		// the inherited member of that name is one) is refused: EQUALITY_NOT_ATTRIBUTE / SERIALIZATION_NOT_ATTRIBUTE
		for _, n := range append(append([]string{}, d.eq...), d.ser...) {
			ownAttr := false
			for _, a := range decls {
				ownAttr = ownAttr || a.name == n
			}
			ownFn := false
			for _, f := range d.funcs {
				ownFn = ownFn || f.name == n
			}
			if !ownAttr && (ownFn || parentKind[n] == "f") {
				wf = false
			}
		}
		s.funcs = append(s.funcs, fns)
		if d.parent >= 0 {
			s.iface = append(s.iface, len(all) == 0 && s.iface[d.parent])
		} else {
			s.iface = append(s.iface, len(all) == 0 && len(d.funcs) > 0)
		}
		s.all = append(s.all, all)
		find := func(n string) *sattr {
			for k := range all {
				if all[k].name == n {
					return &all[k]
				}
			}
			return nil
		}
		// equality
		var eqa []string
		declared := d.eqKind != "-"
		inherited := map[string]bool{}
		for p := d.parent; p >= 0; p = defs[p].parent {
			if defs[p].eqKind != "-" {
				declared = true
				for _, n := range defs[p].eq {
					inherited[n] = true
				}
			}
		}
		for _, n := range d.eq {
			a := find(n)
			// a derived attribute has no stored value in this implementation: naming one in `equality` is malformed
			if a == nil || a.kind == "c" || a.kind == "d" || inherited[n] {
				wf = false
			}
		}
		for t := i; t >= 0; t = defs[t].parent {
			eqa = append(eqa, defs[t].eq...)
		}
		if !declared {
			for _, a := range all {
				if a.settable() {
					eqa = append(eqa, a.name)
				}
			}
		}
		for _, n := range eqa {
			// an inherited equality attribute overridden by a derived or constant one no longer has a stored value
			if a := find(n); a == nil || !a.settable() {
				wf = false
			}
		}
		s.eqa = append(s.eqa, eqa)
		s.eit = append(s.eit, d.eit != "f")
		// positional order
		var pos []*sattr
		req := 0
		if d.hasSer {
			optSeen := false
			listed := map[string]bool{}
			for _, n := range d.ser {
				a := find(n)
				if a == nil || !a.settable() || listed[n] {
					wf = false
					continue
				}
				listed[n] = true
				if a.hasDflt {
					optSeen = true
				} else {
					if optSeen {
						wf = false
					}
					req++
				}
				pos = append(pos, a)
			}
			// the specification's reading of "well-formed": every settable attribute is listed
			for k := range all {
				if all[k].settable() && !listed[all[k].name] {
					wf = false
				}
			}
		} else {
			for k := range all {
				if all[k].settable() && !all[k].hasDflt {
					pos = append(pos, &all[k])
				}
			}
			req = len(pos)
			for k := range all {
				if all[k].settable() && all[k].hasDflt {
					pos = append(pos, &all[k])
				}
			}
		}
		s.pos = append(s.pos, pos)
		s.req = append(s.req, req)
		s.wf = append(s.wf, wf)
	}
	return s
}

// ---- rendering -----------------------------------------------------------------------------------------------

var opCounter int64

func quote(n string) string { return "'" + n + "'" }

func (d *def) text(name, parent string) string {
	var sb strings.Builder
	sb.WriteString("type " + name + " = ")
	if parent == "" {
		sb.WriteString("Object[{")
	} else {
		sb.WriteString(parent + "{")
	}
	var parts []string
	if len(d.params) > 0 {
		var ps []string
		for _, q := range d.params {
			ps = append(ps, quote(q.name)+" => "+q.ty.text())
		}
		parts = append(parts, "type_parameters => {"+strings.Join(ps, ", ")+"}")
	}
	if len(d.attrs) > 0 {
		var as []string
		for _, a := range d.attrs {
			if a.kind == "n" && a.dflt == nil && !a.override && a.final == "" {
				as = append(as, quote(a.name)+" => "+a.ty.text())
				continue
			}
			fs := []string{"type => " + a.ty.text()}
			if a.override {
				fs = append(fs, "override => true")
			}
			if a.final != "" {
				fs = append(fs, "final => "+strconv.FormatBool(a.final == "f"))
			}
			if k := kindName(a.kind); k != "" {
				fs = append(fs, "kind => "+k)
			}
			if a.dflt != nil {
				fs = append(fs, "value => "+a.dflt.text())
			}
			as = append(as, quote(a.name)+" => {"+strings.Join(fs, ", ")+"}")
		}
		parts = append(parts, "attributes => {"+strings.Join(as, ", ")+"}")
	}
	if len(d.consts) > 0 {
		var ks []string
		for _, k := range d.consts {
			ks = append(ks, quote(k.name)+" => "+k.dflt.text())
		}
		parts = append(parts, "constants => {"+strings.Join(ks, ", ")+"}")
	}
	qs := func(ns []string) string {
		out := make([]string, len(ns))
		for i, n := range ns {
			out[i] = quote(n)
		}
		return "[" + strings.Join(out, ", ") + "]"
	}
	switch d.eqKind {
	case "s":
		parts = append(parts, "equality => "+quote(d.eq[0]))
	case "l":
		parts = append(parts, "equality => "+qs(d.eq))
	}
	switch d.eit {
	case "t":
		parts = append(parts, "equality_include_type => true")
	case "f":
		parts = append(parts, "equality_include_type => false")
	}
	if d.hasSer {
		parts = append(parts, "serialization => "+qs(d.ser))
	}
	if len(d.funcs) > 0 {
		var fs []string
		for _, f := range d.funcs {
			if !f.override && !f.final {
				fs = append(fs, quote(f.name)+" => Callable[[0,0],"+f.ret.text()+"]")
				continue
			}
			xs := []string{"type => Callable[[0,0]," + f.ret.text() + "]"}
			if f.override {
				xs = append(xs, "override => true")
			}
			if f.final {
				xs = append(xs, "final => true")
			}
			fs = append(fs, quote(f.name)+" => {"+strings.Join(xs, ", ")+"}")
		}
		parts = append(parts, "functions => {"+strings.Join(fs, ", ")+"}")
	}
	if d.deco > 0 {
		fs := []string{fmt.Sprintf("'fn%d' => Callable[[0,0],Integer]", d.deco-1)}
		if d.decoParent >= 0 && d.deco%2 == 0 {
			fs = append(fs, fmt.Sprintf("'fn%d' => {type => Callable[[0,0],Integer], override => true}", d.decoParent))
		}
		if d.decoFns {
			parts = append(parts, "functions => {"+strings.Join(fs, ", ")+"}")
		}
		parts = append(parts, fmt.Sprintf("annotations => {TagsAnnotation => {'tags' => {'level' => 'l%d'}}}", d.deco-1))
	}
	sb.WriteString(strings.Join(parts, ", "))
	if parent == "" {
		sb.WriteString("}]")
	} else {
		sb.WriteString("}")
	}
	return sb.String()
}

func kindName(k string) string {
	switch k {
	case "c":
		return "constant"
	case "d":
		return "derived"
	case "g":
		return "given_or_derived"
	case "r":
		return "reference"
	}
	return ""
}

func strs(ns []string) px.Value {
	vs := make([]px.Value, len(ns))
	for i, n := range ns {
		vs[i] = types.WrapString(n)
	}
	return types.WrapValues(vs)
}

// initHash renders the definition as the init-hash of `Object[…]` (attribute types as Type values)
func (d *def) initHash(name string, parent px.Type) *types.Hash { return d.initHash2(name, parent, "") }

// initHash2: with parentName != "" the ALTERNATIVE spelling of the same init-hash: the parent as a type NAME, attribute types
// as type-expression strings (in the long form only where the string is a plain type name, as the attribute schema demands),
// type parameters in the long form {type => T}
func (d *def) initHash2(name string, parent px.Type, parentName string) *types.Hash {
	alt := parentName != ""
	tyv := func(t *ty, plainOnly bool) px.Value {
		if alt && (!plainOnly || t.elt == nil) {
			return types.WrapString(t.text())
		}
		return t.px()
	}
	es := []*types.HashEntry{types.WrapHashEntry2("name", types.WrapString(name))}
	if parent != nil {
		if alt {
			es = append(es, types.WrapHashEntry2("parent", types.WrapString(parentName)))
		} else {
			es = append(es, types.WrapHashEntry2("parent", parent))
		}
	}
	if len(d.params) > 0 {
		var ps []*types.HashEntry
		for _, q := range d.params {
			if alt {
				ps = append(ps, types.WrapHashEntry2(q.name, types.WrapHash([]*types.HashEntry{types.WrapHashEntry2("type", q.ty.px())})))
				continue
			}
			ps = append(ps, types.WrapHashEntry2(q.name, q.ty.px()))
		}
		es = append(es, types.WrapHashEntry2("type_parameters", types.WrapHash(ps)))
	}
	if len(d.attrs) > 0 {
		var as []*types.HashEntry
		for _, a := range d.attrs {
			if a.kind == "n" && a.dflt == nil && !a.override && a.final == "" {
				as = append(as, types.WrapHashEntry2(a.name, tyv(a.ty, false)))
				continue
			}
			fs := []*types.HashEntry{types.WrapHashEntry2("type", tyv(a.ty, true))}
			if a.override {
				fs = append(fs, types.WrapHashEntry2("override", types.WrapBoolean(true)))
			}
			if a.final != "" {
				fs = append(fs, types.WrapHashEntry2("final", types.WrapBoolean(a.final == "f")))
			}
			if k := kindName(a.kind); k != "" {
				fs = append(fs, types.WrapHashEntry2("kind", types.WrapString(k)))
			}
			if a.dflt != nil {
				fs = append(fs, types.WrapHashEntry2("value", a.dflt.px()))
			}
			as = append(as, types.WrapHashEntry2(a.name, types.WrapHash(fs)))
		}
		es = append(es, types.WrapHashEntry2("attributes", types.WrapHash(as)))
	}
	if len(d.consts) > 0 {
		var ks []*types.HashEntry
		for _, k := range d.consts {
			ks = append(ks, types.WrapHashEntry2(k.name, k.dflt.px()))
		}
		es = append(es, types.WrapHashEntry2("constants", types.WrapHash(ks)))
	}
	switch d.eqKind {
	case "s":
		es = append(es, types.WrapHashEntry2("equality", types.WrapString(d.eq[0])))
	case "l":
		es = append(es, types.WrapHashEntry2("equality", strs(d.eq)))
	}
	switch d.eit {
	case "t":
		es = append(es, types.WrapHashEntry2("equality_include_type", types.WrapBoolean(true)))
	case "f":
		es = append(es, types.WrapHashEntry2("equality_include_type", types.WrapBoolean(false)))
	}
	if d.hasSer {
		es = append(es, types.WrapHashEntry2("serialization", strs(d.ser)))
	}
	if len(d.funcs) > 0 {
		var fs []*types.HashEntry
		for i := range d.funcs {
			f := &d.funcs[i]
			if !f.override && !f.final {
				fs = append(fs, types.WrapHashEntry2(f.name, f.callable()))
				continue
			}
			xs := []*types.HashEntry{types.WrapHashEntry2("type", f.callable())}
			if f.override {
				xs = append(xs, types.WrapHashEntry2("override", types.WrapBoolean(true)))
			}
			if f.final {
				xs = append(xs, types.WrapHashEntry2("final", types.WrapBoolean(true)))
			}
			fs = append(fs, types.WrapHashEntry2(f.name, types.WrapHash(xs)))
		}
		es = append(es, types.WrapHashEntry2("functions", types.WrapHash(fs)))
	}
	if d.deco > 0 {
		callable := types.NewCallableType(types.NewTupleType([]px.Type{}, types.NewIntegerType(0, 0)), types.DefaultIntegerType(), nil)
		fs := []*types.HashEntry{types.WrapHashEntry2(fmt.Sprintf("fn%d", d.deco-1), callable)}
		if d.decoParent >= 0 && d.deco%2 == 0 {
			fs = append(fs, types.WrapHashEntry2(fmt.Sprintf("fn%d", d.decoParent), types.WrapHash([]*types.HashEntry{
				types.WrapHashEntry2("type", callable), types.WrapHashEntry2("override", types.WrapBoolean(true))})))
		}
		if d.decoFns {
			es = append(es, types.WrapHashEntry2("functions", types.WrapHash(fs)))
		}
		es = append(es,
			types.WrapHashEntry(types.WrapString("annotations"), types.WrapHash([]*types.HashEntry{types.WrapHashEntry(types.TagsAnnotationType,
				types.WrapHash([]*types.HashEntry{types.WrapHashEntry2("tags", types.WrapHash([]*types.HashEntry{
					types.WrapHashEntry2("level", types.WrapString(fmt.Sprintf("l%d", d.deco-1)))}))}))})))
	}
	return types.WrapHash(es)
}

// ---- running against pcore ----------------------------------------------------------------------------------------

// issues raised during the current op whose message has an unbound argument (ops of one worker run one after the other)
var msgProblems []string

func classify(e interface{}) (cls string) {
	switch e := e.(type) {
	case issue.Reported:
		// rendering the message may itself panic (an issue code without a registered message): that is a fault
		defer func() {
			if recover() != nil {
				cls = "fault"
			}
		}()
		msg := e.Error()
		if strings.Contains(msg, "runtime error:") {
			return "fault"
		}
		if strings.Contains(msg, "(MISSING)") || strings.Contains(msg, "%!") {
			msgProblems = append(msgProblems, string(e.Code())+": "+msg)
		}
		return "reported " + strings.TrimPrefix(string(e.Code()), "PCORE_")
	case error:
		if strings.Contains(e.Error(), "runtime error:") || strings.Contains(e.Error(), "interface conversion") {
			return "fault"
		}
		return "error"
	}
	return "other"
}

// safely runs f; "" when it returned normally, else the classified panic
func safely(f func()) (cls string) {
	defer func() {
		if e := recover(); e != nil {
			cls = classify(e)
			if os.Getenv("VERIF_DEBUG") != "" {
				fmt.Fprintf(os.Stderr, "recovered (%s): %v\n%s\n", cls, e, debug.Stack())
			}
		}
	}()
	f()
	return ""
}

type run struct {
	out     []string
	types   []px.Type
	objs    []px.PuppetObject // nil = not created
	objT    []int
	created []bool
	faults  []string
	defOK   bool
	defRes  []string
	alt     bool // the init-hash rendering spells types and the parent as strings (initHash2)
}

// define adds the definitions to the context, either as parsed text or as init-hashes
func (r *run) define(c px.Context, s *spec, prefix string, asText bool) {
	r.defOK = true
	for i := range s.defs {
		d := &s.defs[i]
		name := fmt.Sprintf("%s::T%d", prefix, i)
		var t px.Type
		cls := safely(func() {
			if asText {
				parent := ""
				if d.parent >= 0 {
					parent = fmt.Sprintf("%s::T%d", prefix, d.parent)
				}
				t = c.ParseType(d.text(name, parent))
				px.AddTypes(c, t)
			} else {
				var parent px.Type
				parentName := ""
				if d.parent >= 0 {
					parent = r.types[d.parent]
					if r.alt {
						parentName = fmt.Sprintf("%s::T%d", prefix, d.parent)
					}
				} else if r.alt {
					parentName = "-"
				}
				t = types.MakeObjectType(name, nil, d.initHash2(name, parent, parentName), false)
				px.AddTypes(c, t)
			}
		})
		if cls != "" {
			r.defRes = append(r.defRes, cls)
			r.defOK = false
			if cls == "fault" {
				r.faults = append(r.faults, fmt.Sprintf("definition %d", i))
			}
			return
		}
		r.defRes = append(r.defRes, "ok")
		r.types = append(r.types, t)
	}
}

// redefine re-creates every type of `src` from its own InitHash(): the name replaced by a fresh one, the parent by the
// re-created parent
func (r *run) redefine(c px.Context, s *spec, src []px.Type, prefix string) {
	r.defOK = true
	for i, st := range src {
		name := fmt.Sprintf("%s::T%d", prefix, i)
		var t px.Type
		cls := safely(func() {
			var es []*types.HashEntry
			sawName := false
			st.(px.PuppetObject).InitHash().EachPair(func(k, v px.Value) {
				switch k.String() {
				case "name":
					v, sawName = types.WrapString(name), true
				case "parent":
					v = r.types[s.defs[i].parent]
				}
				es = append(es, types.WrapHashEntry(k, v))
			})
			if !sawName {
				panic(fmt.Errorf("the InitHash of a named type has no name"))
			}
			t = types.MakeObjectType(name, nil, types.WrapHash(es), false)
			px.AddTypes(c, t)
		})
		if cls != "" {
			r.defRes = append(r.defRes, cls)
			r.defOK = false
			if cls == "fault" {
				r.faults = append(r.faults, fmt.Sprintf("re-definition %d", i))
			}
			return
		}
		r.defRes = append(r.defRes, "ok")
		r.types = append(r.types, t)
	}
}

func hashOf(names []string, vals []val) *types.Hash {
	es := make([]*types.HashEntry, len(names))
	for i := range names {
		es[i] = types.WrapHashEntry2(names[i], vals[i].px())
	}
	return types.WrapHash(es)
}

func pxVals(vs []val) []px.Value {
	out := make([]px.Value, len(vs))
	for i, v := range vs {
		out[i] = v.px()
	}
	return out
}

func newObj(c px.Context, t px.Type, args ...px.Value) (o px.PuppetObject, cls string) {
	cls = safely(func() {
		v := px.New(c, t, args...)
		po, ok := v.(px.PuppetObject)
		if !ok {
			panic(fmt.Errorf("new did not answer an object"))
		}
		o = po
	})
	return
}

func (r *run) obj(k int) px.PuppetObject {
	if k < len(r.objs) {
		return r.objs[k]
	}
	return nil
}

func (r *run) act(c px.Context, s *spec, acts []action) {
	for ai, a := range acts {
		res := ""
		fault := func(cls string) string {
			if cls == "fault" {
				r.faults = append(r.faults, fmt.Sprintf("action %d (%s)", ai, a.op))
			}
			return cls
		}
		switch a.op {
		case "newpos", "newnamed":
			if a.t >= len(r.types) {
				res = "notype"
				r.objs = append(r.objs, nil)
				r.objT = append(r.objT, -1)
				break
			}
			var o px.PuppetObject
			var cls string
			if a.op == "newpos" {
				o, cls = newObj(c, r.types[a.t], pxVals(a.vals)...)
			} else {
				o, cls = newObj(c, r.types[a.t], hashOf(a.names, a.vals))
			}
			r.objs = append(r.objs, o)
			r.objT = append(r.objT, a.t)
			if cls == "" {
				res = "obj"
			} else {
				res = fault(cls)
			}
		case "get":
			o := r.obj(a.o)
			if o == nil {
				res = "noobj"
				break
			}
			cls := safely(func() {
				if v, ok := o.Get(a.name); ok {
					res = "(some " + valOfPx(v) + ")"
				} else {
					res = "none"
				}
			})
			if cls != "" {
				res = fault(cls)
			}
		case "inithash":
			o := r.obj(a.o)
			if o == nil {
				res = "noobj"
				break
			}
			cls := safely(func() {
				xs := []string{}
				o.InitHash().EachPair(func(k, v px.Value) { xs = append(xs, " ("+k.String()+" "+valOfPx(v)+")") })
				res = "(h" + strings.Join(xs, "") + ")"
			})
			if cls != "" {
				res = fault(cls)
			}
		case "eq":
			o1, o2 := r.obj(a.o), r.obj(a.o2)
			if o1 == nil || o2 == nil {
				res = "noobj"
				break
			}
			cls := safely(func() { res = sx.B(o1.Equals(o2, nil)) })
			if cls != "" {
				res = fault(cls)
			}
		case "inst":
			o := r.obj(a.o)
			if o == nil || a.t >= len(r.types) {
				res = "noobj"
				break
			}
			cls := safely(func() { res = sx.B(px.IsInstance(r.types[a.t], o)) })
			if cls != "" {
				res = fault(cls)
			}
		}
		r.out = append(r.out, res)
	}
}

func (r *run) line() string {
	return strings.Join(append([]string{"def " + strings.Join(r.defRes, " ")}, r.out...), " ; ")
}

// ---- the property, directly on the implementation -----------------------------------------------------------------

type failure struct{ class, detail string }

// expected value of attribute `a` for an object created by action `act`; ok=false when the specification has no opinion
func (s *spec) expectGet(act *action, a *sattr) (val, bool) {
	if a.kind == "c" {
		// a function of the same name declared by a DESCENDANT of the constant's definition hides the constant from
		// `Member` (the level's attributes are looked at first, then its functions, then the parent): no opinion
		for _, f := range s.funcs[act.t] {
			if f.name == a.name && f.owner != a.owner {
				return val{}, false
			}
		}
		return *a.dflt, true
	}
	if a.kind == "d" {
		return val{}, false
	}
	if act.op == "newpos" {
		for i, p := range s.pos[act.t] {
			if p.name == a.name {
				if i < len(act.vals) {
					return act.vals[i], true
				}
				break
			}
		}
	} else {
		for i, n := range act.names {
			if n == a.name {
				return act.vals[i], true
			}
		}
	}
	if a.hasDflt {
		return a.dv, true
	}
	return val{}, false
}

// stored: how many positions the instance stores: the positional values as given, or — for a named construction and for a
// non-empty positional one on a parameterized type, which goes through makeValueHash and PositionalFromHash — every position
// filled (given value or implicit one) and then trimmed from the end while the value is the attribute's DECLARED value
// (attribute.Default: `a.value != nil && a.value.Equals(v)`; a given_or_derived attribute whose type accepts undef without
// being an Optional has no such value), never below the required count
func (s *spec) stored(act *action) int {
	pos := s.pos[act.t]
	if act.op == "newpos" && (len(act.vals) == 0 || len(s.tparams[act.t]) == 0) {
		return len(act.vals)
	}
	n := len(pos)
	for n > s.req[act.t] {
		p := pos[n-1]
		v, given := s.givenAt(act, n-1)
		if !given {
			v = p.dv
		}
		declared := (p.dflt != nil && p.dflt.String() == v.String()) || (p.dflt == nil && p.ety.k == "opt" && v.k == "u")
		if !declared {
			break
		}
		n--
	}
	return n
}

// givenAt: the value the construction gives for position i
func (s *spec) givenAt(act *action, i int) (val, bool) {
	if act.op == "newpos" {
		if i < len(act.vals) {
			return act.vals[i], true
		}
		return val{}, false
	}
	for k, n := range act.names {
		if n == s.pos[act.t][i].name {
			return act.vals[k], true
		}
	}
	return val{}, false
}

// ext: the bindings of the type parameters of the instance's type, as the code makes them (typedObject.valuesFromHash):
// a parameter is bound when the hash the values come from has a key of its name with a value of Optional[T] other than undef
// (an undef binds nothing: fix de95e71, finding C17-tparam-explicit-undef) — for a named
// construction the hash given; for a positional one the hash made by makeValueHash, which leaves out every value equal to its
// attribute's default.  explicitDefault: a NAMED construction binds a parameter to a value that equals the default of the
// attribute (known finding C17-tparam-explicit-default: the positional twin does not, and the init-hash drops it).
func (s *spec) ext(act *action) (ext string, explicitDefault bool) {
	tps := s.tparams[act.t]
	if len(tps) == 0 || s.stored(act) == 0 {
		return "", false
	}
	for _, q := range tps {
		for i, p := range s.pos[act.t] {
			if p.name != q.name {
				continue
			}
			v, given := s.givenAt(act, i)
			if !given || v.k == "u" || !(&ty{k: "opt", elt: q.ty}).inst(v) {
				continue
			}
			isDflt := p.hasDflt && p.dv.String() == v.String()
			if act.op == "newpos" && isDflt {
				continue
			}
			if isDflt {
				explicitDefault = true
			}
			ext += q.name + "=" + v.String() + ";"
		}
	}
	return ext, explicitDefault
}

// givesParamDefault: the construction gives some type parameter's attribute a value other than undef equal to the attribute's
// default (by position or by name): the named twin / the positional twin / the object rebuilt from the init-hash then has another type
func (s *spec) givesParamDefault(act *action) bool {
	for _, q := range s.tparams[act.t] {
		for i, p := range s.pos[act.t] {
			if v, given := s.givenAt(act, i); p.name == q.name && given && v.k != "u" && p.hasDflt && p.dv.String() == v.String() && (&ty{k: "opt", elt: q.ty}).inst(v) {
				return true
			}
		}
	}
	return false
}

// wellTypedNew: the construction is inside the property's quantifier (right count, every value an instance)
func (s *spec) wellTypedNew(act *action) bool {
	pos := s.pos[act.t]
	if act.op == "newpos" {
		if len(act.vals) < s.req[act.t] || len(act.vals) > len(pos) {
			return false
		}
		for i, v := range act.vals {
			if !pos[i].ety.inst(v) {
				return false
			}
		}
		return true
	}
	seen := map[string]bool{}
	for i, n := range act.names {
		var a *sattr
		for _, p := range pos {
			if p.name == n {
				a = p
			}
		}
		if a == nil || seen[n] || !a.ety.inst(act.vals[i]) {
			return false
		}
		seen[n] = true
	}
	for _, p := range pos {
		if !p.hasDflt && !seen[p.name] {
			return false
		}
	}
	return true
}

func (r *run) predicate(c px.Context, s *spec, acts []action, hashes []*types.Hash) []failure {
	var fs []failure
	add := func(class, format string, a ...interface{}) { fs = append(fs, failure{class, fmt.Sprintf(format, a...)}) }
	for _, f := range r.faults {
		add("fault", "runtime fault in %s", f)
	}
	// every definition the declared schema admits is accepted
	for i, res := range r.defRes {
		if res != "ok" && res != "fault" && s.wf[i] {
			admitted := false
			_ = safely(func() { admitted = admittedBySchema(hashes[i]) })
			if admitted {
				add("schema-admitted-rejected", "definition %d is an instance of TypeObjectInitHash and well-formed but was rejected: %s", i, res)
			}
		}
	}
	if !r.defOK {
		return fs
	}
	allWf := true
	for _, w := range s.wf {
		allWf = allWf && w
	}
	if !allWf {
		return fs // accepted although the specification calls it malformed: outside the quantifier (model still compared)
	}
	// distinct types are distinct hash keys (and a type finds itself): a Hash keyed by the types of the op
	if cls := safely(func() {
		es := make([]*types.HashEntry, len(r.types))
		for i, t := range r.types {
			es[i] = types.WrapHashEntry(t, types.WrapInteger(int64(i)))
		}
		h := types.WrapHash(es)
		for i, t := range r.types {
			for j := 0; j < i; j++ {
				if px.ToKey(t) == px.ToKey(r.types[j]) {
					add("type-hash-key", "the distinct types T%d and T%d have the same hash key", j, i)
				}
			}
			if v, ok := h.Get(t); !ok || !v.Equals(types.WrapInteger(int64(i)), nil) {
				add("type-hash-key", "a Hash keyed by the types of the op answers %v for T%d", v, i)
			}
		}
	}); cls != "" {
		add("fault", "a Hash keyed by the types of the op: %s", cls)
	}
	// the creating action of every object slot
	var creators []*action
	for i := range acts {
		if acts[i].op == "newpos" || acts[i].op == "newnamed" {
			creators = append(creators, &acts[i])
		}
	}
	inQ := make([]bool, len(creators))
	for k, act := range creators {
		if act.t >= len(s.defs) {
			continue
		}
		wt := s.wellTypedNew(act)
		o := r.obj(k)
		if o == nil {
			if wt {
				add("new-rejected", "object %d: well-typed %s was rejected", k, act.op)
			}
			continue
		}
		if !wt {
			continue // C16 territory (an ill-typed construction that was accepted); the model is still compared
		}
		inQ[k] = true
		t := act.t
		// each attribute reads back the value given or its default
		for ai := range s.all[t] {
			a := &s.all[t][ai]
			want, ok := s.expectGet(act, a)
			if !ok {
				continue
			}
			got := "fault"
			cls := safely(func() {
				if v, ok := o.Get(a.name); ok {
					got = valOfPx(v)
				} else {
					got = "none"
				}
			})
			if cls == "fault" {
				add("fault", "Get(%s) on object %d", a.name, k)
			} else if got != want.String() {
				if a.kind == "c" && got == "none" {
					add("get-constant", "object %d: Get(%s) of a constant answers not-found, want %s", k, a.name, want)
				} else {
					add("get-wrong", "object %d: Get(%s) = %s, want %s", k, a.name, got, want)
				}
			}
		}
		// a failure of the two laws below on a construction that gives a type parameter's attribute its default is the known
		// finding C17-tparam-explicit-default (the named constructor binds the parameter to it, the positional one and the
		// init-hash do not): reported under its own class
		addLaw := add
		if s.givesParamDefault(act) {
			addLaw = func(class, format string, a ...interface{}) {
				if class == "fault" {
					add(class, format, a...)
				} else {
					add("tparam-explicit-default", "["+class+"] "+format, a...)
				}
			}
		}
		// positional and named construction yield equal objects
		if act.op == "newpos" {
			names := make([]string, len(act.vals))
			for i := range act.vals {
				names[i] = s.pos[t][i].name
			}
			o2, cls := newObj(c, r.types[t], hashOf(names, act.vals))
			if o2 == nil {
				addLaw("pos-named-differ", "object %d: named twin of a positional construction was rejected: %s", k, cls)
			} else {
				eq1, eq2 := false, false
				if cls := safely(func() { eq1 = o.Equals(o2, nil); eq2 = o2.Equals(o, nil) }); cls != "" {
					add("fault", "Equals(positional, named) on object %d: %s", k, cls)
				} else if !eq1 || !eq2 {
					addLaw("pos-named-differ", "object %d: positional and named construction are not equal (%v/%v)", k, eq1, eq2)
				}
			}
		}
		// rebuilding an object from its init-hash yields an equal object
		var ih px.OrderedMap
		if cls := safely(func() { ih = o.InitHash() }); cls != "" {
			add("fault", "InitHash on object %d: %s", k, cls)
		} else {
			o3, cls := newObj(c, r.types[t], ih)
			if o3 == nil {
				addLaw("inithash-roundtrip", "object %d: new(T, InitHash) was rejected: %s", k, cls)
			} else {
				eq := false
				if cls := safely(func() { eq = o3.Equals(o, nil) && o.Equals(o3, nil) }); cls != "" {
					add("fault", "Equals(rebuilt, original) on object %d: %s", k, cls)
				} else if !eq {
					addLaw("inithash-roundtrip", "object %d: object rebuilt from its init-hash is not equal", k)
				} else {
					// equal by Equals: also attribute by attribute (Equals may look at fewer attributes)
					for _, p := range s.pos[t] {
						g1, g2 := "", ""
						_ = safely(func() {
							v1, _ := o.Get(p.name)
							v2, _ := o3.Get(p.name)
							g1, g2 = valOfPx(v1), valOfPx(v2)
						})
						if g1 != g2 {
							add("inithash-roundtrip", "object %d: attribute %s is %s, after the round trip %s", k, p.name, g1, g2)
						}
					}
				}
			}
		}
		// an instance of a subtype is an instance of every ancestor and never the reverse
		for p := range s.defs {
			want := s.ancestorOrSelf(p, t)
			got := false
			if cls := safely(func() { got = px.IsInstance(r.types[p], o) }); cls != "" {
				add("fault", "IsInstance(T%d, object %d): %s", p, k, cls)
			} else if want && !got {
				if s.iface[p] && !s.implements(t, p) {
					// known finding C17-iface-override-covariant: a function of the interface ancestor overridden at a narrower type
					add("iface-override-covariant", "object %d of T%d is not an instance of its interface ancestor T%d (a function was overridden at a narrower type)", k, t, p)
				} else {
					add("subtype-not-instance", "object %d of T%d is not an instance of its ancestor T%d", k, t, p)
				}
			} else if !want && s.iface[p] && got != s.implements(t, p) {
				add("iface-structural", "object %d of T%d: IsInstance(interface T%d) = %v, T%d has all its functions at equal types = %v", k, t, p, got, t, !got)
			} else if !want && got && !s.isInterface(p) {
				if s.ancestorOrSelf(t, p) {
					add("ancestor-instance-of-sub", "object %d of T%d is an instance of the subtype T%d", k, t, p)
				} else {
					add("unrelated-instance", "object %d of T%d is an instance of the unrelated T%d", k, t, p)
				}
			}
		}
	}
	// objects compare equal exactly when their declared equality attributes are equal
	for k1 := range creators {
		for k2 := range creators {
			if !inQ[k1] || !inQ[k2] {
				continue
			}
			a1, a2 := creators[k1], creators[k2]
			t1, t2 := a1.t, a2.t
			attrsEq := true
			for _, n := range s.eqa[t1] {
				x1 := s.find(t1, n)
				x2 := s.find(t2, n)
				if x2 == nil {
					attrsEq = false
					break
				}
				v1, ok1 := s.expectGet(a1, x1)
				v2, ok2 := s.expectGet(a2, x2)
				if !ok1 || !ok2 || v1.String() != v2.String() {
					attrsEq = false
					break
				}
			}
			got := false
			if cls := safely(func() { got = r.objs[k1].Equals(r.objs[k2], nil) }); cls != "" {
				add("fault", "Equals(object %d, object %d): %s", k1, k2, cls)
				continue
			}
			// the types of the two instances: the same definition and, on a parameterized type, the same bindings
			e1, _ := s.ext(a1)
			e2, _ := s.ext(a2)
			if t1 == t2 && e1 == e2 {
				if got != attrsEq {
					add("equality-wrong", "objects %d and %d of T%d: Equals = %v, equality attributes %v equal = %v", k1, k2, t1, got, s.eqa[t1], attrsEq)
				}
			} else {
				// different types: equal only when both say equality_include_type => false, both compare the same
				// attributes (by name), and those are equal
				want := !s.eit[t1] && !s.eit[t2] && sameNames(s.eqa[t1], s.eqa[t2]) && attrsEq
				if got && !want {
					add("equality-wrong", "objects %d (T%d) and %d (T%d) of different types are equal", k1, t1, k2, t2)
				} else if !got && want {
					add("equality-include-type", "objects %d (T%d) and %d (T%d): equality_include_type => false on both types, same equality attributes %v with equal values, yet not equal", k1, t1, k2, t2, s.eqa[t1])
				}
			}
		}
	}
	return fs
}

// admittedBySchema reads the declared schema member by member (the set reading of a Struct: every key of the hash is a
// declared member whose value is an instance of the member's type, every member that is not optional is present) — on
// purpose not through StructType.IsInstance, whose matched-count test is part of what is being checked
func admittedBySchema(h *types.Hash) bool {
	els := types.TypeObjectInitHash.Elements()
	ok := true
	h.EachPair(func(k, v px.Value) {
		found := false
		for _, el := range els {
			if el.Name() == k.String() {
				found = true
				if !px.IsInstance(el.Value(), v) {
					ok = false
				}
				break
			}
		}
		if !found {
			ok = false
		}
	})
	for _, el := range els {
		if !el.Optional() && !h.IncludesKey2(el.Name()) {
			ok = false
		}
	}
	return ok
}

// sameNames: the same set of names
func sameNames(a, b []string) bool {
	in := func(n string, l []string) bool {
		for _, x := range l {
			if x == n {
				return true
			}
		}
		return false
	}
	for _, n := range a {
		if !in(n, b) {
			return false
		}
	}
	for _, n := range b {
		if !in(n, a) {
			return false
		}
	}
	return true
}

// sameShape: the two types have the same attributes (names, types, kinds, defaults, order) and equality attributes
func sameShape(s *spec, t1, t2 int) bool {
	if len(s.all[t1]) != len(s.all[t2]) || strings.Join(s.eqa[t1], ",") != strings.Join(s.eqa[t2], ",") {
		return false
	}
	for i := range s.all[t1] {
		a, b := s.all[t1][i], s.all[t2][i]
		if a.name != b.name || a.kind != b.kind || a.ty.sexp().String() != b.ty.sexp().String() || a.hasDflt != b.hasDflt || a.dv.String() != b.dv.String() || a.override != b.override || a.final != b.final {
			return false
		}
	}
	return true
}

// ---- the type alphabet against pcore ------------------------------------------------------------------------------

// `asg T U` → px.IsAssignable(T, U);  `tinst T V` → px.IsInstance(T, V): the model's `asg` / `inst` on the alphabet of attribute
// types (both the parsed and the programmatically built type must answer alike: class alphabet-renderings)
func execTypes(c px.Context, op string, args []sx.Sexp) core.Result {
	if len(args) != 2 {
		return core.Result{Out: "bad-op", Pred: "n/a"}
	}
	out, pred := "", "ok"
	if cls := safely(func() {
		t := tyOf(args[0])
		if op == "asg" {
			u := tyOf(args[1])
			a, b := px.IsAssignable(t.px(), u.px()), px.IsAssignable(c.ParseType(t.text()), c.ParseType(u.text()))
			out = sx.B(a)
			if a != b {
				pred = fmt.Sprintf("FAIL alphabet-renderings IsAssignable(%s, %s) is %v for the built types and %v for the parsed ones", t.text(), u.text(), a, b)
			} else if asgSpec(t, u) && !a {
				pred = fmt.Sprintf("FAIL alphabet-assignable %s rejects %s although every instance of the latter is an instance of the former", t.text(), u.text())
			}
		} else {
			v := valOf(args[1])
			a, b := px.IsInstance(t.px(), v.px()), px.IsInstance(c.ParseType(t.text()), v.px())
			out = sx.B(a)
			if a != b {
				pred = fmt.Sprintf("FAIL alphabet-renderings IsInstance(%s, %s) is %v for the built type and %v for the parsed one", t.text(), v.text(), a, b)
			} else if a != t.inst(v) {
				pred = fmt.Sprintf("FAIL alphabet-instance IsInstance(%s, %s) = %v", t.text(), v.text(), a)
			}
		}
	}); cls != "" {
		if out == "" {
			return core.Result{Out: "bad-op", Pred: "n/a"}
		}
		return core.Result{Out: cls, Pred: "FAIL fault " + op}
	}
	return core.Result{Out: out, Pred: pred, NonTrivial: true, Tags: []string{"alphabet:" + op}}
}

// ---- exec -------------------------------------------------------------------------------------------------------

func exec(c px.Context, op string, args []sx.Sexp) core.Result {
	if op == "iface" {
		return execIface(c, args)
	}
	if op == "tparam" {
		return execTParam(c, args)
	}
	if op == "msg" {
		return execMsg(c, args)
	}
	if op == "goobj" {
		return execGoObj(c, args)
	}
	if op == "asg" || op == "tinst" {
		return execTypes(c, op, args)
	}
	if op == "ifacex" {
		return execIfaceX(c, args)
	}
	if op == "fnover" {
		return execFnOver(c, args)
	}
	if op == "ifacecov" {
		return execIfaceCov(c, args)
	}
	if op == "anon" {
		return execAnon(c, args)
	}
	if op == "nested" {
		return execNested(c, args)
	}
	deco := op == "objd"
	if deco {
		op = "obj"
	}
	if op != "obj" || len(args) != 2 || !args[0].IsList || !args[1].IsList {
		return core.Result{Out: "bad-op", Pred: "FAIL harness-bad-op " + op}
	}
	var defs []def
	var acts []action
	if cls := safely(func() {
		for _, d := range args[0].List {
			defs = append(defs, defOf(d))
		}
		for _, a := range args[1].List {
			acts = append(acts, actionOf(a))
		}
	}); cls != "" || len(defs) == 0 {
		return core.Result{Out: "bad-op", Pred: "n/a"}
	}
	var s *spec
	if cls := safely(func() { s = mkSpec(defs) }); cls != "" {
		return core.Result{Out: "bad-op", Pred: "n/a"}
	}
	if deco {
		own := false
		for i := range defs {
			own = own || len(defs[i].funcs) > 0
		}
		for i := range defs {
			defs[i].deco, defs[i].decoParent, defs[i].decoFns = i+1, defs[i].parent, !own
		}
		s.deco = !own // (with functions of their own the definitions carry the annotation only)
	}
	n := atomic.AddInt64(&opCounter, 1)
	msgProblems = nil
	var rt, rh *run
	var fails []failure
	// the two renderings, each in its own forked context (fresh loader)
	px.DoWithContext(c.Fork(), func(fc px.Context) {
		rh = &run{alt: (len(acts)+len(defs))%2 == 1}
		rh.define(fc, s, fmt.Sprintf("C17h%d", n), false)
		if rh.defOK {
			rh.act(fc, s, acts)
		}
	})
	hashes := make([]*types.Hash, len(defs))
	for i := range defs {
		hashes[i] = defs[i].initHash(fmt.Sprintf("C17s%d::T%d", n, i), nil)
	}
	px.DoWithContext(c.Fork(), func(fc px.Context) {
		rt = &run{}
		rt.define(fc, s, fmt.Sprintf("C17t%d", n), true)
		if rt.defOK {
			rt.act(fc, s, acts)
		}
		fails = rt.predicate(fc, s, acts, hashes)
	})
	out := rt.line()
	if h := rh.line(); h != out {
		fails = append(fails, failure{"renderings-differ", "as text: " + out + " | as init-hash: " + h})
	}
	if rt.defOK {
		// third rendering: every type re-created from its OWN InitHash() (under a new name, the parent replaced by the
		// re-created parent); the same actions must yield the same observations
		ri := &run{}
		px.DoWithContext(c.Fork(), func(fc px.Context) {
			ri.redefine(fc, s, rt.types, fmt.Sprintf("C17i%d", n))
			if ri.defOK {
				ri.act(fc, s, acts)
			}
		})
		h := ri.line()
		switch {
		case h == out:
			out += " ; reinit same"
		case !ri.defOK:
			out += " ; reinit " + strings.Join(ri.defRes, " ")
		default:
			out += " ; reinit differs"
		}
		if !strings.HasSuffix(out, " ; reinit same") {
			// (the finding C17-type-inithash-constant-undef — the InitHash of a constant of an Optional type whose value is
			// undef left the value out — is fixed by 86875be: no class of its own any more)
			fails = append(fails, failure{"reinit-differs", "as text: " + out + " | re-created from InitHash(): " + h})
		}
	}
	if len(msgProblems) > 0 {
		fails = append(fails, failure{"message-args", "an issue renders with an unbound argument: " + msgProblems[0]})
	}
	created := 0
	for _, o := range rt.objs {
		if o != nil {
			created++
		}
	}
	tags := []string{"defs" + strconv.Itoa(len(defs)), "def-" + strings.Replace(rt.defRes[len(rt.defRes)-1], " ", "-", -1)}
	res := core.Result{Out: out, Pred: "ok", NonTrivial: rt.defOK && created > 0, Tags: tags}
	if len(fails) > 0 {
		sort.SliceStable(fails, func(i, j int) bool { return classRank(fails[i].class) < classRank(fails[j].class) })
		res.Pred = "FAIL " + fails[0].class + " " + fails[0].detail
		res.NonTrivial = true
	}
	return res
}

// one class is reported per op: the most specific first
func classRank(c string) int {
	for i, k := range []string{"fault", "schema-admitted-rejected", "renderings-differ", "reinit-differs", "new-rejected", "get-wrong", "get-constant", "pos-named-differ",
		"inithash-roundtrip", "equality-wrong", "equality-include-type", "subtype-not-instance", "ancestor-instance-of-sub", "unrelated-instance", "iface-structural", "type-hash-key", "message-args", "tparam-explicit-default", "iface-override-covariant"} {
		if c == k {
			return i
		}
	}
	return 99
}
