package c17

import (
	"fmt"
	"sort"
	"strings"
	"sync/atomic"

	"verif/harness/core"
	"verif/harness/sx"

	"github.com/lyraproj/issue/issue"
	"github.com/lyraproj/pcore/px"
)

// Implementation-only op `@ifacex (LEVEL*)`: member FUNCTIONS along inheritance chains and the structural matching of
// interfaces, with function names SHARED between unrelated types (in `@iface` / `@objd` every level has a name of its own,
// so "has the interface's functions" and "descends from it" coincide there).
//
//	LEVEL ::= (PARENT (FN*) ATTR)    PARENT ::= - | <index of an earlier level>;  FN ::= p | q | r  (a member function
//	                                 Callable[[0,0],Integer]; `override => true` is added exactly when an ancestor has a
//	                                 function of that name) | P | Q  (the function p / q with ANOTHER type,
//	                                 Callable[[0,0],String]: roots only);  ATTR ::= t | f  (the level declares attribute
//	                                 n<i>, Integer with default 0) | p  (it declares an ATTRIBUTE named p: roots only)
//
// The reading of the code that is asserted (types/objecttype.go IsAssignable / Implements / InitFromHash):
//   - a type is an INTERFACE iff it has no attributes, and either its parent is an interface, or it has no parent and declares
//     a function;
//   - an interface accepts exactly the object types that have EVERY function of the interface — declared by it or by any of
//     its ancestors — as a FUNCTION member (an attribute of that name does not count) of an EQUAL type;
//   - any other type accepts exactly itself and its descendants.
// Every level gets one instance (`new(T)`); `IsInstance(T_i, o_j)` is compared with that reading for all i, j.
// Classes: ifacex-rejected (the definition or the construction was refused), ifacex-instance, fault.
var ifxCounter int64

type ifxLevel struct {
	parent int
	funcs  []string // p q r P Q
	attr   bool
	attrP  bool // the attribute is named p
}

func execIfaceX(c px.Context, args []sx.Sexp) core.Result {
	if len(args) != 1 || !args[0].IsList || len(args[0].List) == 0 || len(args[0].List) > 6 {
		return core.Result{Out: "bad-op", Pred: "n/a"}
	}
	var lv []ifxLevel
	if cls := safely(func() {
		for i, e := range args[0].List {
			if !e.IsList || len(e.List) != 3 || !e.List[1].IsList {
				panic(fmt.Errorf("bad level %s", e))
			}
			l := ifxLevel{parent: -1}
			if p := e.List[0]; !(p.Atom == "-" && !p.IsList) {
				l.parent = natOf(p)
				if l.parent >= i {
					panic(fmt.Errorf("bad parent %s", e))
				}
			}
			for _, f := range e.List[1].List {
				if f.IsList || !strings.Contains("pqrPQ", f.Atom) || len(f.Atom) != 1 {
					panic(fmt.Errorf("bad function %s", f))
				}
				if (f.Atom == "P" || f.Atom == "Q") && l.parent >= 0 {
					panic(fmt.Errorf("%s on a level with a parent", f.Atom))
				}
				l.funcs = append(l.funcs, f.Atom)
			}
			var low []string
			for _, f := range l.funcs {
				low = append(low, strings.ToLower(f))
			}
			if repeats(low) {
				panic(fmt.Errorf("repeated function %s", e))
			}
			if a := e.List[2]; !a.IsList && a.Atom == "p" {
				l.attr, l.attrP = true, true
				if l.parent >= 0 || repeats(append(low, "p")) {
					panic(fmt.Errorf("attribute p on a level with a parent or a function p"))
				}
			} else {
				l.attr = a.MustBool()
			}
			lv = append(lv, l)
		}
	}); cls != "" {
		return core.Result{Out: "bad-op", Pred: "n/a"}
	}
	// the asserted reading
	n := len(lv)
	funcs := make([]map[string]bool, n) // own and inherited, by name+type: "p" = p returning Integer, "P" = p returning String
	hasAttr := make([]bool, n)          // own or inherited
	iface := make([]bool, n)
	anc := make([]map[int]bool, n)
	for i, l := range lv {
		funcs[i], anc[i] = map[string]bool{}, map[int]bool{i: true}
		if l.parent >= 0 {
			for f := range funcs[l.parent] {
				funcs[i][f] = true
			}
			for a := range anc[l.parent] {
				anc[i][a] = true
			}
			hasAttr[i] = hasAttr[l.parent]
		}
		for _, f := range l.funcs {
			funcs[i][f] = true
		}
		hasAttr[i] = hasAttr[i] || l.attr
		if l.parent >= 0 {
			iface[i] = !l.attr && iface[l.parent]
		} else {
			iface[i] = !l.attr && len(l.funcs) > 0
		}
	}
	id := atomic.AddInt64(&ifxCounter, 1)
	out, pred := "", "ok"
	fail := func(class, format string, xs ...interface{}) {
		if pred == "ok" {
			pred = "FAIL " + class + " " + fmt.Sprintf(format, xs...)
		}
	}
	kind := safely(func() {
		px.DoWithContext(c.Fork(), func(fc px.Context) {
			var ts []px.Type
			var objs []px.Value
			for i, l := range lv {
				name := fmt.Sprintf("X%d::L%d", id, i)
				var entries []string
				if l.parent >= 0 {
					entries = append(entries, fmt.Sprintf("parent => X%d::L%d", id, l.parent))
				}
				if len(l.funcs) > 0 {
					var fs []string
					for _, f := range l.funcs {
						switch {
						case f == "P" || f == "Q":
							fs = append(fs, strings.ToLower(f)+" => Callable[[0,0],String]")
						case l.parent >= 0 && funcs[l.parent][f]:
							fs = append(fs, f+" => {type => Callable[[0,0],Integer], override => true}")
						default:
							fs = append(fs, f+" => Callable[[0,0],Integer]")
						}
					}
					entries = append(entries, "functions => {"+strings.Join(fs, ", ")+"}")
				}
				if l.attrP {
					entries = append(entries, "attributes => {p => {type => Integer, value => 0}}")
				} else if l.attr {
					entries = append(entries, fmt.Sprintf("attributes => {n%d => {type => Integer, value => 0}}", i))
				}
				var tp px.Type
				if cls := safely(func() {
					tp = fc.ParseType(fmt.Sprintf("Object[name => '%s', %s]", name, strings.Join(append(entries, "equality_include_type => true"), ", ")))
					px.AddTypes(fc, tp)
				}); cls != "" {
					fail("ifacex-rejected", "level %d was refused: %s", i, cls)
					out = "rejected"
					return
				}
				ts = append(ts, tp)
				o, cls := newVal(fc, tp)
				if o == nil {
					fail("ifacex-rejected", "new(level %d) was refused: %s", i, cls)
					out = "rejected"
					return
				}
				objs = append(objs, o)
			}
			var bits []string
			for i := range ts {
				for j := range objs {
					got := px.IsInstance(ts[i], objs[j])
					bits = append(bits, sx.B(got))
					want := anc[j][i]
					if iface[i] {
						want = true
						for f := range funcs[i] {
							want = want && funcs[j][f]
						}
					}
					if got != want {
						fail("ifacex-instance", "IsInstance(level %d%s, instance of level %d) = %v, want %v", i, map[bool]string{true: " (an interface)", false: ""}[iface[i]], j, got, want)
					}
				}
			}
			out = strings.Join(bits, "")
		})
	})
	if kind != "" {
		out = kind
		fail("fault", "raised %s", kind)
	}
	return core.Result{Out: out, Pred: pred, NonTrivial: true, Tags: []string{"ifacex"}}
}

// Implementation-only op `@fnover CASE`: a member function follows the override rules of a member (annotatedmember.go
// assertOverride / assertCanBeOverridden).  CASE and the expected outcome:
//
//	ok        parent f, child f with override => true                          accepted
//	missing   parent f, child f without override                               OVERRIDE_IS_MISSING
//	notfound  child f with override => true, the parent has no f               OVERRIDDEN_NOT_FOUND
//	final     parent f final => true, child f with override => true            OVERRIDE_OF_FINAL
//	fa        parent ATTRIBUTE m, child FUNCTION m with override => true       OVERRIDE_MEMBER_MISMATCH
//	af        parent FUNCTION m, child ATTRIBUTE m with override => true       OVERRIDE_MEMBER_MISMATCH
//	type      parent f returns Integer, child f returns String, override       OVERRIDE_TYPE_MISMATCH
//	conflict  one definition with attribute m and function m                   MEMBER_NAME_CONFLICT
//	grand     grand-parent f, child (of an empty parent) f without override    OVERRIDE_IS_MISSING
//
// Classes: fnover-accepted (a definition that must be refused was accepted), fnover-rejected, fnover-code, fault.
var fnoverCases = map[string][3]string{
	// parent body, child body, expected code ("" = accepted)
	"ok":       {"functions => {f => Callable[[0,0],Integer]}", "functions => {f => {type => Callable[[0,0],Integer], override => true}}", ""},
	"missing":  {"functions => {f => Callable[[0,0],Integer]}", "functions => {f => Callable[[0,0],Integer]}", "PCORE_OVERRIDE_IS_MISSING"},
	"notfound": {"functions => {g => Callable[[0,0],Integer]}", "functions => {f => {type => Callable[[0,0],Integer], override => true}}", "PCORE_OVERRIDDEN_NOT_FOUND"},
	"final":    {"functions => {f => {type => Callable[[0,0],Integer], final => true}}", "functions => {f => {type => Callable[[0,0],Integer], override => true}}", "PCORE_OVERRIDE_OF_FINAL"},
	"fa":       {"attributes => {m => Integer}", "functions => {m => {type => Callable[[0,0],Integer], override => true}}", "PCORE_OVERRIDE_MEMBER_MISMATCH"},
	"af":       {"functions => {m => Callable[[0,0],Integer]}", "attributes => {m => {type => Integer, override => true}}", "PCORE_OVERRIDE_MEMBER_MISMATCH"},
	"type":     {"functions => {f => Callable[[0,0],Integer]}", "functions => {f => {type => Callable[[0,0],String], override => true}}", "PCORE_OVERRIDE_TYPE_MISMATCH"},
	"conflict": {"", "attributes => {m => Integer}, functions => {m => Callable[[0,0],Integer]}", "PCORE_MEMBER_NAME_CONFLICT"},
	"grand":    {"functions => {f => Callable[[0,0],Integer]}", "functions => {f => Callable[[0,0],Integer]}", "PCORE_OVERRIDE_IS_MISSING"},
}

func execFnOver(c px.Context, args []sx.Sexp) core.Result {
	if len(args) != 1 || args[0].IsList {
		return core.Result{Out: "bad-op", Pred: "n/a"}
	}
	cs, ok := fnoverCases[args[0].Atom]
	if !ok {
		return core.Result{Out: "bad-op", Pred: "n/a"}
	}
	id := atomic.AddInt64(&ifxCounter, 1)
	res := core.Result{Out: "ok", Pred: "ok", NonTrivial: true, Tags: []string{"fnover"}}
	px.DoWithContext(c.Fork(), func(fc px.Context) {
		define := func(name, parent, body string) (cls string, code string) {
			defer func() {
				if e := recover(); e != nil {
					cls = classify(e)
					if rep, ok := e.(issue.Reported); ok {
						code = string(rep.Code())
					}
				}
			}()
			entries := []string{"name => '" + name + "'"}
			if parent != "" {
				entries = append(entries, "parent => "+parent)
			}
			if body != "" {
				entries = append(entries, body)
			}
			px.AddTypes(fc, fc.ParseType("Object["+strings.Join(entries, ", ")+"]"))
			return "", ""
		}
		parent := ""
		if cs[0] != "" {
			parent = fmt.Sprintf("F%d::P", id)
			if cls, _ := define(parent, "", cs[0]); cls != "" {
				res.Pred = "FAIL fnover-rejected the parent definition was refused: " + cls
				return
			}
			if args[0].Atom == "grand" {
				mid := fmt.Sprintf("F%d::M", id)
				if cls, _ := define(mid, parent, ""); cls != "" {
					res.Pred = "FAIL fnover-rejected the middle definition was refused: " + cls
					return
				}
				parent = mid
			}
		}
		cls, code := define(fmt.Sprintf("F%d::C", id), parent, cs[1])
		switch {
		case cls == "fault":
			res.Pred = "FAIL fault the child definition faulted"
		case cs[2] == "" && cls != "":
			res.Pred = "FAIL fnover-rejected a proper function override was refused: " + cls
		case cs[2] != "" && cls == "":
			res.Pred = "FAIL fnover-accepted case " + args[0].Atom + ": the definition must be refused with " + cs[2] + " and was accepted"
		case cs[2] != "" && code != cs[2]:
			res.Pred = "FAIL fnover-code case " + args[0].Atom + ": refused with " + code + ", want " + cs[2]
		}
	})
	return res
}

// Implementation-only op `@ifacecov KIND`: an INTERFACE I = {functions => {f => Callable[[0,0],Any]}} and a child that overrides f
// with `override => true` and a type the override check admits:
//
//	KIND ::= same-i | same-a     the same type Callable[[0,0],Any]; the child is an interface again / declares an attribute
//	       | narrow-i | narrow-a the narrower Callable[[0,0],Integer]
//
// "An instance of a subtype is an instance of every ancestor": new(Child) must be an instance of I, and Child assignable to I.
// Classes: ifacecov-rejected, fault, and `iface-override-covariant` for the known finding C17-iface-override-covariant
// (Implements demands an EQUAL function type, the override check an ASSIGNABLE one: the narrow kinds fail).
func execIfaceCov(c px.Context, args []sx.Sexp) core.Result {
	if len(args) != 1 || args[0].IsList {
		return core.Result{Out: "bad-op", Pred: "n/a"}
	}
	kind := args[0].Atom
	if kind != "same-i" && kind != "same-a" && kind != "narrow-i" && kind != "narrow-a" {
		return core.Result{Out: "bad-op", Pred: "n/a"}
	}
	id := atomic.AddInt64(&ifxCounter, 1)
	res := core.Result{Out: "ok", Pred: "ok", NonTrivial: true, Tags: []string{"ifacecov"}}
	px.DoWithContext(c.Fork(), func(fc px.Context) {
		ret := "Any"
		if strings.HasPrefix(kind, "narrow") {
			ret = "Integer"
		}
		attr := ""
		if strings.HasSuffix(kind, "-a") {
			attr = "attributes => {a => {type => Integer, value => 0}}, "
		}
		var ti, tc px.Type
		var o px.Value
		if cls := safely(func() {
			ti = fc.ParseType(fmt.Sprintf("Object[{name => 'V%d::I', functions => {f => Callable[[0,0],Any]}}]", id))
			px.AddTypes(fc, ti)
			tc = fc.ParseType(fmt.Sprintf("Object[{name => 'V%d::C', parent => V%d::I, %sfunctions => {f => {type => Callable[[0,0],%s], override => true}}}]", id, id, attr, ret))
			px.AddTypes(fc, tc)
			o = px.New(fc, tc)
		}); cls != "" {
			res.Pred = "FAIL ifacecov-rejected a function override of an assignable type was refused: " + cls
			return
		}
		inst, asgn := false, false
		if cls := safely(func() { inst, asgn = px.IsInstance(ti, o), px.IsAssignable(ti, tc) }); cls != "" {
			res.Pred = "FAIL fault " + cls
			return
		}
		if !inst || !asgn {
			class := "iface-subtype-not-instance"
			if strings.HasPrefix(kind, "narrow") {
				class = "iface-override-covariant"
			}
			res.Pred = fmt.Sprintf("FAIL %s an instance of the child is an instance of its interface parent: %v; the child is assignable to it: %v", class, inst, asgn)
		}
	})
	return res
}

func genIfaceX(g *core.G) {
	for _, k := range []string{"same-i", "same-a", "narrow-i", "narrow-a"} {
		g.Emit("@ifacecov " + k)
	}
	var cases []string
	for c := range fnoverCases {
		cases = append(cases, c)
	}
	sort.Strings(cases)
	for _, c := range cases {
		g.Emit("@fnover " + c)
	}
	// chains of 1..3 levels over 5 level shapes, each with one stranger root out of 4
	shapes := []string{"() f", "() t", "(p) f", "(q) f", "(p) t"}
	strangers := []string{"(- (p) f)", "(- (q) f)", "(- (p q) f)", "(- (q) t)", "(- (r) f)", "(- (P) f)", "(- (q) p)", "(- (P q) t)", "(- (Q p) f)"}
	var rec func(levels []string)
	k := 0
	rec = func(levels []string) {
		if len(levels) > 0 {
			st := strangers[k%len(strangers)]
			k++
			g.Emit("@ifacex (" + strings.Join(levels, " ") + " " + st + ")")
		}
		if len(levels) == 3 {
			return
		}
		for _, sh := range shapes {
			parent := "-"
			if len(levels) > 0 {
				parent = fmt.Sprint(len(levels) - 1)
			}
			rec(append(append([]string{}, levels...), "("+parent+" "+sh+")"))
		}
	}
	rec(nil)
	// forks: two children of one root, functions shared or not
	for _, root := range []string{"() f", "(p) f", "(p) t"} {
		for _, a := range []string{"(q) f", "(p) f", "() f", "(q) t"} {
			for _, b := range []string{"(q) f", "(r) f", "() t"} {
				g.Emit(fmt.Sprintf("@ifacex ((- %s) (0 %s) (0 %s) (- (q) f))", root, a, b))
			}
		}
	}
}
