package c17

import (
	"fmt"
	"sync/atomic"

	"verif/harness/core"
	"verif/harness/sx"

	"github.com/lyraproj/pcore/px"
	"github.com/lyraproj/pcore/types"
)

// Implementation-only op `@nested FORM N`: an attribute whose TYPE IS AN OBJECT TYPE.
//
//	type A = Object[{attributes => {x => Integer, z => {type => Integer, value => 0}}}]
//	type B = Object[{attributes => {a => A, y => {type => Integer, value => 0}}}]
//
//	FORM ::= obj | hash     the value given for `a`: an instance A(1), or A's init-hash {x => 1} (both constructors of B admit
//	                        it: the parameter type of an object-typed attribute is Variant[A, <init Struct of A>], typeAndInit)
//	N    ::= 1 | 2          how many positional values (a; a and y = 3)
//
// Laws: positional = named (the twin gets the same values by name), new(B, InitHash()) Equals the original, Get(a) is an
// instance of the declared attribute type, and the two FORMs build Equal objects.
// Classes: nested-rejected, nested-pos-named, nested-roundtrip, nested-get-type, fault — and `nested-positional-hash` for the
// known finding C17-positional-object-attribute-uncoerced (whatever fails on a POSITIONAL construction that gives the
// init-hash form: the positional creator stores the hash as it is, the named one coerces it into an A).
var nestedCounter int64

func execNested(c px.Context, args []sx.Sexp) core.Result {
	if len(args) != 2 || args[0].IsList || (args[0].Atom != "obj" && args[0].Atom != "hash") {
		return core.Result{Out: "bad-op", Pred: "n/a"}
	}
	n := 0
	if cls := safely(func() { n = natOf(args[1]) }); cls != "" || n < 1 || n > 2 {
		return core.Result{Out: "bad-op", Pred: "n/a"}
	}
	form := args[0].Atom
	id := atomic.AddInt64(&nestedCounter, 1)
	var fails []failure
	add := func(class, format string, xs ...interface{}) { fails = append(fails, failure{class, fmt.Sprintf(format, xs...)}) }
	px.DoWithContext(c.Fork(), func(fc px.Context) {
		var ta, tb px.Type
		if cls := safely(func() {
			ta = fc.ParseType(fmt.Sprintf("Object[{name => 'N%d::A', attributes => {x => Integer, z => {type => Integer, value => 0}}}]", id))
			px.AddTypes(fc, ta)
			tb = fc.ParseType(fmt.Sprintf("Object[{name => 'N%d::B', attributes => {a => N%d::A, y => {type => Integer, value => 0}}}]", id, id))
			px.AddTypes(fc, tb)
		}); cls != "" {
			add("nested-rejected", "the definitions were refused: %s", cls)
			return
		}
		a1, cls := newObj(fc, ta, types.WrapInteger(1))
		if a1 == nil {
			add("nested-rejected", "new(A, 1): %s", cls)
			return
		}
		var av px.Value = a1
		if form == "hash" {
			av = types.WrapHash([]*types.HashEntry{types.WrapHashEntry2("x", types.WrapInteger(1))})
		}
		pos := []px.Value{av}
		es := []*types.HashEntry{types.WrapHashEntry2("a", av)}
		if n == 2 {
			pos = append(pos, types.WrapInteger(3))
			es = append(es, types.WrapHashEntry2("y", types.WrapInteger(3)))
		}
		ref, _ := newObj(fc, tb, append([]px.Value{a1}, pos[1:]...)...) // the same with `a` given as an instance
		o1, cls1 := newObj(fc, tb, pos...)
		o2, cls2 := newObj(fc, tb, types.WrapHash(es))
		if o1 == nil || o2 == nil || ref == nil {
			add("nested-rejected", "a construction was refused: positional %q named %q", cls1, cls2)
			return
		}
		if cls := safely(func() {
			if !o1.Equals(o2, nil) || !o2.Equals(o1, nil) {
				add("nested-pos-named", "positional %s and named %s are not Equal", o1, o2)
			}
			for k, o := range []px.PuppetObject{o1, o2} {
				if o3, cls3 := newObj(fc, tb, o.InitHash()); o3 == nil || !o3.Equals(o, nil) || !o.Equals(o3, nil) {
					add("nested-roundtrip", "object %d: %s rebuilt from its init-hash is %v (%s)", k, o, o3, cls3)
				}
				if v, ok := o.Get("a"); !ok || !px.IsInstance(ta, v) {
					add("nested-get-type", "object %d: Get(a) = %v is not an instance of the declared attribute type", k, v)
				}
				if !o.Equals(ref, nil) || !ref.Equals(o, nil) {
					add("nested-pos-named", "object %d: %s is not Equal to the object built from an instance of A, %s", k, o, ref)
				}
			}
		}); cls != "" {
			add("fault", "raised %s", cls)
		}
	})
	res := core.Result{Out: "ok", Pred: "ok", NonTrivial: true, Tags: []string{"nested"}}
	if len(fails) > 0 {
		res.Pred = "FAIL " + fails[0].class + " " + fails[0].detail
		if form == "hash" && fails[0].class != "fault" && fails[0].class != "nested-rejected" {
			res.Pred = "FAIL nested-positional-hash [" + fails[0].class + "] " + fails[0].detail
		}
	}
	return res
}

func genNested(g *core.G) {
	for _, f := range []string{"obj", "hash"} {
		for _, n := range []string{"1", "2"} {
			g.Emit("@nested " + f + " " + n)
		}
	}
}
