package c17

import (
	"fmt"
	"sort"
	"sync/atomic"

	"verif/harness/core"
	"verif/harness/sx"

	"github.com/lyraproj/pcore/px"
	"github.com/lyraproj/pcore/types"
)

// Implementation-only op `@nested FORM N`: an attribute whose TYPE IS AN OBJECT TYPE.
//
//	type A = Object[{attributes => {x => Integer, z => {type => Integer, value => 0}}}]
//	type B = Object[{attributes => {a => A, y => {type => Integer, value => 0}}}]
//
//	FORM ::= obj | hash     the value given for `a`: an instance A(1), or A's init-hash {x => 1} (both constructors of B admit
//	                        it: the parameter type of an object-typed attribute is Variant[A, <init Struct of A>], typeAndInit)
//	N    ::= 1 | 2          how many positional values (a; a and y = 3)
//
// Laws: positional = named (the twin gets the same values by name), new(B, InitHash()) Equals the original, Get(a) is an
// instance of the declared attribute type, and the two FORMs build Equal objects.
// Classes: nested-rejected, nested-pos-named, nested-roundtrip, nested-get-type, fault — and `nested-positional-hash` for the
// known finding C17-positional-object-attribute-uncoerced (whatever fails on a POSITIONAL construction that gives the
// init-hash form: the positional creator stores the hash as it is, the named one coerces it into an A).
var nestedCounter int64

func execNested(c px.Context, args []sx.Sexp) core.Result {
	if len(args) != 2 || args[0].IsList || (args[0].Atom != "obj" && args[0].Atom != "hash") {
		return core.Result{Out: "bad-op", Pred: "n/a"}
	}
	n := 0
	if cls := safely(func() { n = natOf(args[1]) }); cls != "" || n < 1 || n > 2 {
		return core.Result{Out: "bad-op", Pred: "n/a"}
	}
	form := args[0].Atom
	id := atomic.AddInt64(&nestedCounter, 1)
	var fails []failure
	add := func(class, format string, xs ...interface{}) { fails = append(fails, failure{class, fmt.Sprintf(format, xs...)}) }
	px.DoWithContext(c.Fork(), func(fc px.Context) {
		var ta, tb px.Type
		if cls := safely(func() {
			ta = fc.ParseType(fmt.Sprintf("Object[{name => 'N%d::A', attributes => {x => Integer, z => {type => Integer, value => 0}}}]", id))
			px.AddTypes(fc, ta)
			tb = fc.ParseType(fmt.Sprintf("Object[{name => 'N%d::B', attributes => {a => N%d::A, y => {type => Integer, value => 0}}}]", id, id))
			px.AddTypes(fc, tb)
		}); cls != "" {
			add("nested-rejected", "the definitions were refused: %s", cls)
			return
		}
		a1, cls := newObj(fc, ta, types.WrapInteger(1))
		if a1 == nil {
			add("nested-rejected", "new(A, 1): %s", cls)
			return
		}
		var av px.Value = a1
		if form == "hash" {
			av = types.WrapHash([]*types.HashEntry{types.WrapHashEntry2("x", types.WrapInteger(1))})
		}
		pos := []px.Value{av}
		es := []*types.HashEntry{types.WrapHashEntry2("a", av)}
		if n == 2 {
			pos = append(pos, types.WrapInteger(3))
			es = append(es, types.WrapHashEntry2("y", types.WrapInteger(3)))
		}
		ref, _ := newObj(fc, tb, append([]px.Value{a1}, pos[1:]...)...) // the same with `a` given as an instance
		o1, cls1 := newObj(fc, tb, pos...)
		o2, cls2 := newObj(fc, tb, types.WrapHash(es))
		if o1 == nil || o2 == nil || ref == nil {
			add("nested-rejected", "a construction was refused: positional %q named %q", cls1, cls2)
			return
		}
		if cls := safely(func() {
			if !o1.Equals(o2, nil) || !o2.Equals(o1, nil) {
				add("nested-pos-named", "positional %s and named %s are not Equal", o1, o2)
			}
			for k, o := range []px.PuppetObject{o1, o2} {
				if o3, cls3 := newObj(fc, tb, o.InitHash()); o3 == nil || !o3.Equals(o, nil) || !o.Equals(o3, nil) {
					add("nested-roundtrip", "object %d: %s rebuilt from its init-hash is %v (%s)", k, o, o3, cls3)
				}
				if v, ok := o.Get("a"); !ok || !px.IsInstance(ta, v) {
					add("nested-get-type", "object %d: Get(a) = %v is not an instance of the declared attribute type", k, v)
				}
				if !o.Equals(ref, nil) || !ref.Equals(o, nil) {
					add("nested-pos-named", "object %d: %s is not Equal to the object built from an instance of A, %s", k, o, ref)
				}
			}
		}); cls != "" {
			add("fault", "raised %s", cls)
		}
	})
	res := core.Result{Out: "ok", Pred: "ok", NonTrivial: true, Tags: []string{"nested"}}
	if len(fails) > 0 {
		res.Pred = "FAIL " + fails[0].class + " " + fails[0].detail
		if form == "hash" && fails[0].class != "fault" && fails[0].class != "nested-rejected" {
			res.Pred = "FAIL nested-positional-hash [" + fails[0].class + "] " + fails[0].detail
		}
	}
	return res
}

func genNested(g *core.G) {
	for _, k := range []string{"1", "2", "3"} {
		g.Emit("@anon " + k)
	}
	for _, f := range []string{"obj", "hash"} {
		for _, n := range []string{"1", "2"} {
			g.Emit("@nested " + f + " " + n)
		}
	}
}

// Implementation-only op `@anon K`: ANONYMOUS object types (no name): two types made from the same definition text are
// Equal (objectType.Equals compares the — empty — names and the members).  K ::= 1 | 2 | 3 picks the definition.
// Laws: the instances of the two are Equal in both directions and instances of each other's type; positional = named;
// init-hash round trip; and an Equal type is the same Hash key (`Hash{t1 => 1}.Get(t2)` finds the entry).
// Classes: anon-rejected, anon-instances, fault — and `anon-type-key` for the known finding C17-anonymous-type-key (the key of an
// object type is a per-allocation counter, so Equal anonymous types are different keys).
func execAnon(c px.Context, args []sx.Sexp) core.Result {
	defs := map[string]string{
		"1": "Object[{attributes => {a => Integer, b => {type => Integer, value => 0}}}]",
		"2": "Object[{attributes => {a => Optional[String]}, equality => ['a']}]",
		"3": "Object[{parent => Object[{attributes => {a => Integer}}], attributes => {c => {type => Integer, value => 2}}}]",
	}
	if len(args) != 1 || args[0].IsList || defs[args[0].Atom] == "" {
		return core.Result{Out: "bad-op", Pred: "n/a"}
	}
	src := defs[args[0].Atom]
	res := core.Result{Out: "ok", Pred: "ok", NonTrivial: true, Tags: []string{"anon"}}
	var fails []failure
	add := func(class, format string, xs ...interface{}) { fails = append(fails, failure{class, fmt.Sprintf(format, xs...)}) }
	px.DoWithContext(c.Fork(), func(fc px.Context) {
		cls := safely(func() {
			t1, t2 := fc.ParseType(src), fc.ParseType(src)
			var arg px.Value = types.WrapInteger(1)
			if args[0].Atom == "2" {
				arg = types.WrapString("x")
			}
			o1, o2 := px.New(fc, t1, arg), px.New(fc, t2, arg)
			o3 := px.New(fc, t1, types.WrapHash([]*types.HashEntry{types.WrapHashEntry2("a", arg)}))
			if !t1.Equals(t2, nil) || !t2.Equals(t1, nil) {
				add("anon-instances", "two anonymous types of one definition are not Equal")
				return
			}
			if !o1.Equals(o2, nil) || !o2.Equals(o1, nil) || !px.IsInstance(t2, o1) || !px.IsInstance(t1, o2) {
				add("anon-instances", "instances of two Equal anonymous types are not Equal / not instances of each other's type")
			}
			if !o1.Equals(o3, nil) || !o3.Equals(o1, nil) {
				add("anon-instances", "positional and named construction differ on an anonymous type")
			}
			if o4 := px.New(fc, t1, o1.(px.PuppetObject).InitHash()); !o4.Equals(o1, nil) {
				add("anon-instances", "init-hash round trip on an anonymous type")
			}
			h := types.WrapHash([]*types.HashEntry{types.WrapHashEntry(t1, types.WrapInteger(1))})
			if _, ok := h.Get(t2); !ok || px.ToKey(t1) != px.ToKey(t2) {
				add("anon-type-key", "two Equal anonymous object types are different Hash keys: Hash{t1 => 1}.Get(t2) misses")
			}
		})
		if cls != "" {
			add("anon-rejected", "raised %s", cls)
		}
	})
	if len(fails) > 0 {
		sort.SliceStable(fails, func(i, j int) bool { return fails[i].class != "anon-type-key" && fails[j].class == "anon-type-key" })
		res.Pred = "FAIL " + fails[0].class + " " + fails[0].detail
	}
	return res
}
