package c17

import (
	"fmt"
	"strings"
	"sync/atomic"

	"verif/harness/core"
	"verif/harness/sx"

	"github.com/lyraproj/issue/issue"
	"github.com/lyraproj/pcore/px"
	"github.com/lyraproj/pcore/types"
)

// Implementation-only op (no model counterpart; generated as `@tparam …`): the coherence laws on an object type with ONE
// type parameter.
//
//	tparam K V A      K ::= int | str | type      the parameter's type: Integer, String or Type
//	                  V ::= - | u | (i N) | (s xHEX) | int | str | bool | any     the value given for it (a type name when K = type;
//	                                                - = not given, u = undef given explicitly: binds nothing since the fix de95e71 of C17-tparam-explicit-undef)
//	                  A ::= integer                the value of the required attribute `a`
//
//	type T = Object[{type_parameters => {p => <K>}, attributes => {a => Integer, p => {type => Optional[<K>], value => undef}}}]
//
// An instance that is given a value for `p` gets the parameterized type `T[V]`.  Checked: positional = named, init-hash
// round trip, Get(p) = the value given or undef, instance of the base type T, and instance of its OWN type (`o.PType()`),
// also for the twin built by name.  Classes: tparam-pos-named, tparam-roundtrip, tparam-get, tparam-base, tparam-own-type.
func execTParam(c px.Context, args []sx.Sexp) core.Result {
	if len(args) != 3 || args[0].IsList {
		return core.Result{Out: "bad-op", Pred: "n/a"}
	}
	var pt, vt string
	var pv px.Value
	ok := true
	if cls := safely(func() {
		switch args[0].Atom {
		case "int":
			pt = "Integer"
		case "str":
			pt = "String"
		case "type":
			pt = "Type"
		default:
			ok = false
		}
		if v := args[1]; !v.IsList {
			switch v.Atom {
			case "-":
			case "u":
				pv, vt = px.Undef, "undef" // the parameter's attribute given its default explicitly
			case "int", "str", "bool", "any":
				t := tyOf(v)
				pv, vt = t.px(), t.text()
			default:
				ok = false
			}
		} else {
			x := valOf(v)
			pv, vt = x.px(), x.text()
		}
		_ = args[2].MustInt()
	}); cls != "" || !ok {
		return core.Result{Out: "bad-op", Pred: "n/a"}
	}
	a := types.WrapInteger(args[2].MustInt())
	n := atomic.AddInt64(&opCounter, 1)
	name := fmt.Sprintf("C17p%d::T", n)
	text := fmt.Sprintf("type %s = Object[{type_parameters => {'p' => %s}, attributes => {'a' => Integer, 'p' => {type => Optional[%s], value => undef}}}]", name, pt, pt)
	var fails []failure
	add := func(class, format string, xs ...interface{}) {
		fails = append(fails, failure{class, fmt.Sprintf(format, xs...)})
	}
	out := "ok"
	px.DoWithContext(c.Fork(), func(fc px.Context) {
		var t px.Type
		if cls := safely(func() { t = fc.ParseType(text); px.AddTypes(fc, t) }); cls != "" {
			out = "def " + cls
			add("fault", "definition with a type parameter rejected: %s", cls)
			return
		}
		wellTyped := pv == nil || px.IsInstance(fc.ParseType("Optional["+pt+"]"), pv)
		pos := []px.Value{a}
		es := []*types.HashEntry{types.WrapHashEntry2("a", a)}
		if pv != nil {
			pos = append(pos, pv)
			es = append(es, types.WrapHashEntry2("p", pv))
		}
		o1, cls1 := newObj(fc, t, pos...)
		o2, cls2 := newObj(fc, t, types.WrapHash(es))
		if !wellTyped {
			out = "ill-typed " + sx.B(o1 != nil) + sx.B(o2 != nil)
			return // C16 territory
		}
		if o1 == nil || o2 == nil {
			out = "rejected"
			add("new-rejected", "well-typed construction on a parameterized type rejected: positional %q named %q (p = %s)", cls1, cls2, vt)
			return
		}
		cls := safely(func() {
			if !o1.Equals(o2, nil) || !o2.Equals(o1, nil) {
				add("tparam-pos-named", "positional and named construction differ (p = %s): %s vs %s", vt, o1, o2)
			}
			o3, cls3 := newObj(fc, t, o1.InitHash())
			if o3 == nil || !o3.Equals(o1, nil) || !o1.Equals(o3, nil) {
				add("tparam-roundtrip", "object rebuilt from its init-hash differs or is rejected (%s) (p = %s)", cls3, vt)
			}
			want := px.Value(px.Undef)
			if pv != nil {
				want = pv
			}
			if got, ok := o1.Get("p"); !ok || !got.Equals(want, nil) {
				add("tparam-get", "Get(p) = %v, want %v", got, want)
			}
			// an instance that leaves the parameter out is no instance of the type another instance binds it in — and asking must
			// not raise (known finding C17-tparam-string-match: a String parameter is used as a REGULAR EXPRESSION on the
			// attribute's value, which raises when the value is undef or the string is no regular expression)
			if pv != nil && pv != px.Undef {
				if o0, _ := newObj(fc, t, a); o0 != nil {
					got := false
					if cls0 := safely(func() { got = px.IsInstance(o1.PType(), o0) }); cls0 != "" {
						add("tparam-instance-raises", "IsInstance(%s, an instance without p) raised %s", o1.PType(), cls0)
					} else if got && args[0].Atom != "type" {
						// (a parameter given as a TYPE matches by instance-of: T[Any] accepts the undef of an instance without p)
						add("tparam-unbound-instance", "an instance without p is an instance of %s", o1.PType())
					}
				}
			}
			for k, o := range []px.PuppetObject{o1, o2} {
				if !px.IsInstance(t, o) {
					add("tparam-base", "object %d of %s is not an instance of the base type", k, o.PType())
				}
				if !px.IsInstance(o.PType(), o) {
					add("tparam-own-type", "object %d is not an instance of its own type %s", k, o.PType())
				}
			}
			if !px.IsInstance(o1.PType(), o2) || !px.IsInstance(o2.PType(), o1) {
				add("tparam-own-type", "equal objects of type %s / %s are not instances of each other's type", o1.PType(), o2.PType())
			}
			// the DEFINITION itself prints and reads back: the anonymous twin of the same definition (a named type prints as
			// its name), its init hash, and the parameterized type of the instance
			anon := fc.ParseType(strings.SplitN(text, " = ", 2)[1])
			at := anon.String()
			if back := fc.ParseType(at); !back.Equals(anon, nil) || back.String() != at {
				add("tparam-print", "the definition prints as %s, which reads back as a different type", at)
			}
			_ = anon.(px.PuppetObject).InitHash().String()
			if pv != nil {
				ext := o1.PType().String()
				if back := fc.ParseType(ext); !back.Equals(o1.PType(), nil) {
					add("tparam-print", "the parameterized type prints as %s, which reads back as a different type", ext)
				}
			}
		})
		if cls != "" {
			add("fault", "raised while checking a parameterized type (p = %s): %s", vt, cls)
		}
	})
	res := core.Result{Out: out, Pred: "ok", NonTrivial: pv != nil, Tags: []string{"tparam"}}
	if len(fails) > 0 {
		res.Pred = "FAIL " + fails[0].class + " " + fails[0].detail
		if args[0].Atom == "str" && strings.Contains(fails[0].detail, "MATCH_NOT_") {
			// known finding C17-tparam-string-match
			res.Pred = "FAIL tparam-string-match [" + fails[0].class + "] " + fails[0].detail
		}
		// (the finding C17-tparam-explicit-undef — the parameter's attribute given undef BY NAME bound the type parameter to
		// undef — is fixed by de95e71: V = u is judged like every other value)
	}
	return res
}

func genTParam(g *core.G) {
	g.Emit("@msg eq")
	g.Emit("@msg ser")
	vals := map[string][]string{
		"int":  {"-", "u", "(i 0)", "(i 4)", "(s x78)"},
		"str":  {"-", "u", "(s x)", "(s x78)", "(s x28)", "(i 1)"},
		"type": {"-", "u", "int", "str", "bool", "any", "(i 1)"},
	}
	for _, k := range []string{"int", "str", "type"} {
		for _, v := range vals[k] {
			for _, a := range []string{"1", "-3"} {
				g.Emit("@tparam " + k + " " + v + " " + a)
			}
		}
	}
}

// Implementation-only op `@msg eq|ser`: a definition whose `equality` / `serialization` names a FUNCTION (functions are not
// in the modelled universe) must be rejected with EQUALITY_NOT_ATTRIBUTE / SERIALIZATION_NOT_ATTRIBUTE, and the issue must
// render (every `%{…}` of its message bound; no literal `{label}`).  Classes: not-attribute-accepted, message-args.
func execMsg(c px.Context, args []sx.Sexp) core.Result {
	if len(args) != 1 || args[0].IsList || (args[0].Atom != "eq" && args[0].Atom != "ser") {
		return core.Result{Out: "bad-op", Pred: "n/a"}
	}
	n := atomic.AddInt64(&opCounter, 1)
	entry, want := "equality => 'f'", "PCORE_EQUALITY_NOT_ATTRIBUTE"
	if args[0].Atom == "ser" {
		entry, want = "serialization => ['f']", "PCORE_SERIALIZATION_NOT_ATTRIBUTE"
	}
	text := fmt.Sprintf("type C17m%d::T = Object[{attributes => {'a' => Integer}, functions => {'f' => Callable[[0,0],Integer]}, %s}]", n, entry)
	res := core.Result{Out: "ok", Pred: "ok", NonTrivial: true, Tags: []string{"msg"}}
	px.DoWithContext(c.Fork(), func(fc px.Context) {
		defer func() {
			e := recover()
			if e == nil {
				res.Pred = "FAIL not-attribute-accepted a definition whose " + entry + " names a function was accepted"
				return
			}
			msg := ""
			if cls := safely(func() { msg = fmt.Sprint(e) }); cls != "" {
				res.Pred = "FAIL fault the issue cannot be rendered"
				return
			}
			if rep, ok := e.(interface{ Code() issue.Code }); !ok || string(rep.Code()) != want {
				res.Pred = "FAIL not-attribute-accepted rejected with something else than " + want + ": " + msg
			} else if strings.Contains(msg, "MISSING") || strings.Contains(msg, "{label}") || strings.Contains(msg, "%!") {
				res.Pred = "FAIL message-args " + want + " renders with an unbound argument: " + msg
			}
		}()
		px.AddTypes(fc, fc.ParseType(text))
	})
	return res
}
