package c17

import (
	"fmt"
	"sort"
	"strings"

	"verif/harness/core"
	"verif/harness/sx"

	"github.com/lyraproj/pcore/px"
	"github.com/lyraproj/pcore/types"
)

// Implementation-only op (no model counterpart; generated as `@goobj …`): the coherence laws of C17 on the object types pcore
// implements in GO — the type is declared by an Object definition (attributes, defaults, kinds), constructors / Get / InitHash
// / Equals are hand-written Go.
//
//	goobj KIND (SPEC*)
//
//	KIND = param   SPEC = (xNAME TY HV VAL CAP N)   Parameter(name, type, has_value, value, captures_rest), the first N (2..5)
//	                                                given; TY ::= int|str|bool|any; HV, CAP ::= t|f; VAL as in `obj`
//	KIND = tname   SPEC = (xNS xNAME AUTH N)        TypedName(namespace, name, authority); AUTH ::= - | u | xURI; N = 2|3
//	KIND = deferred SPEC = (xNAME ARGS N)           Deferred(name, arguments); ARGS ::= u | (a VAL*); N = 1|2
//	KIND = tags    SPEC = ((xKEY xVAL)*)            TagsAnnotation(tags)
//	KIND = selem   SPEC = (o|r xNAME TY)            Pcore::StructElement(key_type, value_type): optional / required key
//
// For every SPEC (inside the quantifier: every given value is an instance of the DECLARED attribute type):
//   * the positional construction and its named twin (the same values under the names of their positions) both succeed and
//     are Equal in both directions                                       (goobj-pos-named, goobj-new-rejected, fault)
//   * `new(T, o.InitHash())` succeeds and is Equal to `o`                 (goobj-roundtrip)
//   * `Get(a)` is the value given, or the declared default, for every attribute that is not derived     (goobj-get)
//   * `o` is an instance of its type and of no other Go-implemented type  (goobj-instance)
// and for every PAIR of specs: Equal exactly when the two agree on every attribute (given or default)   (goobj-equality)
// — with the documented readings of two types: a TypedName compares its name, namespace and authority case-insensitively and
// drops a leading `::`; a Parameter that is given a value has a value (`has_value` is not independent of `value`: a spec that
// says has_value => false AND gives a value is outside the quantifier for `Get(has_value)`).
type goSpec struct {
	pos    []px.Value          // the positional arguments given
	names  []string            // names of the positions
	expect map[string]px.Value // Get: attribute -> expected value (no entry: no opinion)
	key    string              // two specs with the same key must be Equal, with different keys not
	inQ    bool                // every given value is an instance of the declared attribute type
	hasGet bool
	// the spec meets a KNOWN finding (findings/C17.json): the class its failure is reported under.  None at present:
	// C17-typedname-undef-authority (an explicit `authority => undef`) is fixed by 8e14ef3, C17-deferred-arguments-undef
	// (`arguments` left out or given as undef) by fa7b8e6 — those specs are judged on every law like the rest.
	known string
}

func goTypeOf(c px.Context, kind string) px.Type {
	switch kind {
	case "param":
		return px.NewParameter("x", types.DefaultAnyType(), nil, false).PType()
	case "tname":
		return types.TypedNameMetaType
	case "deferred":
		return types.DeferredMetaType
	case "tags":
		return types.TagsAnnotationType
	case "selem":
		return types.StructElementMeta
	}
	return nil
}

var goKinds = []string{"param", "tname", "deferred", "tags", "selem"}

func boolOf(e sx.Sexp) bool { return e.MustBool() }

func goSpecOf(kind string, e sx.Sexp) *goSpec {
	if !e.IsList {
		panic(fmt.Errorf("bad spec %s", e))
	}
	a := e.List
	s := &goSpec{expect: map[string]px.Value{}, inQ: true, hasGet: true}
	switch kind {
	case "param":
		if len(a) != 6 {
			panic(fmt.Errorf("bad param spec %s", e))
		}
		name, t, hv, capt, n := a[0].MustStr(), tyOf(a[1]), boolOf(a[2]), boolOf(a[4]), natOf(a[5])
		if n < 2 || n > 5 {
			panic(fmt.Errorf("bad count %d", n))
		}
		v := valOf(a[3])
		all := []px.Value{types.WrapString(name), t.px(), types.WrapBoolean(hv), v.px(), types.WrapBoolean(capt)}
		s.names = []string{"name", "type", "has_value", "value", "captures_rest"}[:n]
		s.pos = all[:n]
		has, val, cp := false, px.Value(px.Undef), false
		if n > 2 {
			has = hv
		}
		if n > 3 {
			val = v.px()
		}
		if n > 4 {
			cp = capt
		}
		valueGiven := n > 3
		s.expect["name"], s.expect["type"] = all[0], all[1]
		s.expect["value"], s.expect["captures_rest"] = val, types.WrapBoolean(cp)
		if has == valueGiven || (has && !valueGiven) {
			// has_value => true without a value: the value is undef, and it has one
			s.expect["has_value"] = types.WrapBoolean(has)
		}
		s.key = fmt.Sprintf("%s|%s|%v|%s|%v", name, t.text(), has || valueGiven, valOfPx(val), cp)
	case "tname":
		if len(a) != 4 {
			panic(fmt.Errorf("bad tname spec %s", e))
		}
		ns, name, n := a[0].MustStr(), a[1].MustStr(), natOf(a[3])
		if n < 2 || n > 3 {
			panic(fmt.Errorf("bad count %d", n))
		}
		var auth px.Value = px.Undef
		if !a[2].IsList && a[2].Atom != "-" && a[2].Atom != "u" {
			auth = types.WrapURI2(a[2].MustStr())
		}
		s.pos = []px.Value{types.WrapString(ns), types.WrapString(name), auth}[:n]
		s.names = []string{"namespace", "name", "authority"}[:n]
		s.expect["namespace"] = s.pos[0]
		s.expect["name"] = types.WrapString(strings.TrimPrefix(name, "::"))
		eff := string(px.RuntimeNameAuthority)
		s.expect["authority"] = px.Undef
		if n > 2 && auth != px.Undef {
			eff = a[2].MustStr()
			if eff != string(px.RuntimeNameAuthority) {
				s.expect["authority"] = auth
			}
		}
		// (an explicit `authority => undef` is the runtime authority, like an authority left out: fix 8e14ef3)
		s.key = strings.ToLower(eff + "/" + ns + "/" + strings.TrimPrefix(name, "::"))
	case "deferred":
		if len(a) != 3 {
			panic(fmt.Errorf("bad deferred spec %s", e))
		}
		name, n := a[0].MustStr(), natOf(a[2])
		if n < 1 || n > 2 {
			panic(fmt.Errorf("bad count %d", n))
		}
		var args px.Value = px.Undef
		if a[1].IsList && a[1].Tag() == "a" {
			var vs []px.Value
			for _, x := range a[1].Args() {
				vs = append(vs, valOf(x).px())
			}
			args = types.WrapValues(vs)
		} else if a[1].IsList || a[1].Atom != "u" {
			panic(fmt.Errorf("bad arguments %s", a[1]))
		}
		s.pos = []px.Value{types.WrapString(name), args}[:n]
		s.names = []string{"name", "arguments"}[:n]
		s.expect["name"] = s.pos[0]
		// the declared default of `arguments` is the empty array, and an explicit undef (which the declared type
		// Optional[Array[Any]] admits) means no arguments too: fix fa7b8e6
		s.expect["arguments"] = px.Value(px.EmptyArray)
		if n > 1 && args != px.Undef {
			s.expect["arguments"] = args
		}
		s.key = name + "|" + s.expect["arguments"].String()
		s.inQ = deferredName(name)
	case "tags":
		var es []*types.HashEntry
		var ks []string
		seen := map[string]bool{}
		for _, kv := range a {
			if !kv.IsList || len(kv.List) != 2 {
				panic(fmt.Errorf("bad tag %s", kv))
			}
			k, v := kv.List[0].MustStr(), kv.List[1].MustStr()
			if seen[k] {
				panic(fmt.Errorf("repeated tag %s", kv))
			}
			seen[k] = true
			es = append(es, types.WrapHashEntry2(k, types.WrapString(v)))
			ks = append(ks, k+"="+v)
		}
		h := types.WrapHash(es)
		s.pos, s.names = []px.Value{h}, []string{"tags"}
		s.expect["tags"] = h
		sort.Strings(ks)
		s.key = strings.Join(ks, ",")
	case "selem":
		if len(a) != 3 || a[0].IsList {
			panic(fmt.Errorf("bad selem spec %s", e))
		}
		name, t := a[1].MustStr(), tyOf(a[2])
		var key px.Type = types.NewStringType(nil, name)
		switch a[0].Atom {
		case "o":
			key = types.NewOptionalType(key)
		case "r":
		default:
			panic(fmt.Errorf("bad selem key %s", a[0]))
		}
		s.pos, s.names = []px.Value{key, t.px()}, []string{"key_type", "value_type"}
		s.key = a[0].Atom + "|" + name + "|" + t.text()
		s.hasGet = false
	default:
		panic(fmt.Errorf("bad kind %s", kind))
	}
	return s
}

// deferredName: the declared Pattern of Deferred's `name`: /\A[$]?[a-z][0-9A-Za-z_]*(?:::[a-z][0-9A-Za-z_]*)*\z/
func deferredName(n string) bool {
	n = strings.TrimPrefix(n, "$")
	for _, seg := range strings.Split(n, "::") {
		if seg == "" || !(seg[0] >= 'a' && seg[0] <= 'z') {
			return false
		}
		for _, c := range seg {
			if !(c == '_' || c >= 'a' && c <= 'z' || c >= 'A' && c <= 'Z' || c >= '0' && c <= '9') {
				return false
			}
		}
	}
	return true
}

func newVal(c px.Context, t px.Type, args ...px.Value) (v px.Value, cls string) {
	cls = safely(func() { v = px.New(c, t, args...) })
	return
}

func execGoObj(c px.Context, args []sx.Sexp) core.Result {
	if len(args) != 2 || args[0].IsList || !args[1].IsList {
		return core.Result{Out: "bad-op", Pred: "n/a"}
	}
	kind := args[0].Atom
	var specs []*goSpec
	if cls := safely(func() {
		for _, e := range args[1].List {
			specs = append(specs, goSpecOf(kind, e))
		}
	}); cls != "" || len(specs) == 0 {
		return core.Result{Out: "bad-op", Pred: "n/a"}
	}
	var fails []failure
	add := func(class, format string, xs ...interface{}) {
		fails = append(fails, failure{class, fmt.Sprintf(format, xs...)})
	}
	t := goTypeOf(c, kind)
	objs := make([]px.Value, len(specs))
	addAll := add
	for k, s := range specs {
		if !s.inQ {
			continue
		}
		add = addAll
		if s.known != "" {
			// whatever fails on a spec that meets a known finding is reported under the finding's class (ranked last)
			known := s.known
			add = func(class, format string, xs ...interface{}) {
				addAll(known, "["+class+"] "+format, xs...)
			}
		}
		o, cls := newVal(c, t, s.pos...)
		if o == nil {
			if cls == "fault" {
				add("fault", "%s %d: positional construction faulted", kind, k)
			} else {
				add("goobj-new-rejected", "%s %d: positional construction of well-typed values %v rejected: %s", kind, k, s.pos, cls)
			}
			continue
		}
		objs[k] = o
		if !s.hasGet {
			// no named constructor, no Get: Equal to a second construction, accessors
			o2, _ := newVal(c, t, s.pos...)
			if cls := safely(func() {
				if o2 == nil || !o.Equals(o2, nil) || !o2.Equals(o, nil) {
					add("goobj-equality", "%s %d: two constructions from the same values are not Equal", kind, k)
				}
				se := o.(*types.StructElement)
				if !se.Key().Equals(s.pos[0], nil) || !se.Value().Equals(s.pos[1], nil) {
					add("goobj-get", "%s %d: Key()/Value() are %s/%s, given %s/%s", kind, k, se.Key(), se.Value(), s.pos[0], s.pos[1])
				}
			}); cls != "" {
				add("fault", "%s %d: %s", kind, k, cls)
			}
			continue
		}
		po, ok := o.(px.PuppetObject)
		if !ok {
			add("goobj-get", "%s %d: the instance is not a PuppetObject", kind, k)
			continue
		}
		// named twin
		es := make([]*types.HashEntry, len(s.pos))
		for i, v := range s.pos {
			es[i] = types.WrapHashEntry2(s.names[i], v)
		}
		if o2, cls := newVal(c, t, types.WrapHash(es)); o2 == nil {
			if cls == "fault" {
				add("fault", "%s %d: named construction faulted", kind, k)
			} else {
				add("goobj-pos-named", "%s %d: named twin of an accepted positional construction rejected: %s", kind, k, cls)
			}
		} else if cls := safely(func() {
			if !o.Equals(o2, nil) || !o2.Equals(o, nil) {
				add("goobj-pos-named", "%s %d: positional %s and named %s are not Equal", kind, k, o, o2)
			}
		}); cls != "" {
			add("fault", "%s %d: Equals(positional, named): %s", kind, k, cls)
		}
		// init-hash round trip
		var ih px.OrderedMap
		if cls := safely(func() { ih = po.InitHash() }); cls != "" {
			add("fault", "%s %d: InitHash: %s", kind, k, cls)
		} else if o3, cls := newVal(c, t, ih); o3 == nil {
			add("goobj-roundtrip", "%s %d: new(T, InitHash()) rejected (%s): %s", kind, k, cls, ih)
		} else if cls := safely(func() {
			if !o.Equals(o3, nil) || !o3.Equals(o, nil) {
				add("goobj-roundtrip", "%s %d: %s rebuilt from its init-hash %s is %s", kind, k, o, ih, o3)
			}
		}); cls != "" {
			add("fault", "%s %d: Equals(original, rebuilt): %s", kind, k, cls)
		}
		// Get
		var an []string
		for n := range s.expect {
			an = append(an, n)
		}
		sort.Strings(an)
		for _, n := range an {
			want := s.expect[n]
			if cls := safely(func() {
				got, ok := po.Get(n)
				if !ok || got == nil || !got.Equals(want, nil) {
					add("goobj-get", "%s %d: Get(%s) = %v, want %v (given or default)", kind, k, n, got, want)
				}
			}); cls != "" {
				add("fault", "%s %d: Get(%s): %s", kind, k, n, cls)
			}
		}
		// every declared attribute can be read (derived ones included) without a fault
		if ot, ok := t.(px.ObjectType); ok {
			if cls := safely(func() {
				for _, a := range ot.AttributesInfo().Attributes() {
					po.Get(a.Name())
				}
			}); cls == "fault" {
				add("fault", "%s %d: reading the declared attributes", kind, k)
			}
		}
		// instance of its own type only
		for _, ok2 := range goKinds {
			t2 := goTypeOf(c, ok2)
			want := ok2 == kind
			if cls := safely(func() {
				if got := px.IsInstance(t2, o); got != want {
					add("goobj-instance", "%s %d: IsInstance(%s) = %v", kind, k, t2.Name(), got)
				}
			}); cls != "" {
				add("fault", "%s %d: IsInstance(%s): %s", kind, k, t2.Name(), cls)
			}
		}
	}
	add = addAll
	for i, a := range objs {
		for j, b := range objs {
			if a == nil || b == nil || specs[i].known != "" || specs[j].known != "" {
				continue
			}
			want := specs[i].key == specs[j].key
			if cls := safely(func() {
				if got := a.Equals(b, nil); got != want {
					add("goobj-equality", "%s %d and %d: Equals = %v, attributes agree = %v (%s | %s)", kind, i, j, got, want, a, b)
				}
			}); cls != "" {
				add("fault", "%s %d and %d: Equals: %s", kind, i, j, cls)
			}
		}
	}
	res := core.Result{Out: "ok", Pred: "ok", NonTrivial: true, Tags: []string{"goobj", "goobj:" + kind}}
	if len(fails) > 0 {
		rank := func(c string) int {
			switch {
			case c == "fault":
				return 0
			case strings.HasPrefix(c, "known-"): // (the class of a spec that meets a known finding: none at present)
				return 2
			}
			return 1
		}
		sort.SliceStable(fails, func(i, j int) bool { return rank(fails[i].class) < rank(fails[j].class) })
		res.Pred = "FAIL " + fails[0].class + " " + fails[0].detail
	}
	return res
}

func genGoObj(g *core.G) {
	hex := func(s string) string { return sx.Str(s).String() }
	// Parameter: every prefix length x has_value x value x captures_rest over two names and two types, in groups of specs
	// that differ in one attribute
	var ps []string
	for _, name := range []string{"x", "y"} {
		for _, t := range []string{"int", "any"} {
			for n := 2; n <= 5; n++ {
				for _, hv := range []string{"t", "f"} {
					for _, v := range []string{"u", "(i 3)", "(s " + hex("d") + ")"} {
						for _, cp := range []string{"t", "f"} {
							if (n < 3 && hv == "f") || (n < 4 && v != "u") || (n < 5 && cp == "f") {
								continue // the attribute is not given: one representative
							}
							ps = append(ps, fmt.Sprintf("(%s %s %s %s %s %d)", hex(name), t, hv, v, cp, n))
						}
					}
				}
			}
		}
	}
	emit := func(kind string, specs []string, per int) {
		for i := 0; i < len(specs); i += per {
			j := i + per
			if j > len(specs) {
				j = len(specs)
			}
			g.Emit("@goobj " + kind + " (" + strings.Join(specs[i:j], " ") + ")")
		}
	}
	emit("param", ps, 12)
	for k := 0; k < 6*g.Scale; k++ { // random groups: pairs from everywhere
		var grp []string
		for i := 0; i < 8; i++ {
			grp = append(grp, ps[g.Rng.Intn(len(ps))])
		}
		emit("param", grp, 8)
	}
	// TypedName
	var ts []string
	for _, ns := range []string{"type", "function", "Type"} {
		for _, name := range []string{"a", "A", "a::b", "A::b", "::a", "x_1::y2"} {
			for _, auth := range []string{"-", "u", hex("http://example.com/x"), hex("http://EXAMPLE.com/x"), hex(string(px.RuntimeNameAuthority))} {
				n := 3
				if auth == "-" {
					n = 2
				}
				ts = append(ts, fmt.Sprintf("(%s %s %s %d)", hex(ns), hex(name), auth, n))
			}
		}
	}
	emit("tname", ts, 10)
	// Deferred
	var ds []string
	for _, name := range []string{"f", "$v", "a::b", "my_fn"} {
		for _, a := range []string{"-", "u", "(a)", "(a (i 1))", "(a (i 1) (s " + hex("x") + "))", "(a u)"} {
			n, arg := 2, a
			if a == "-" {
				n, arg = 1, "u"
			}
			ds = append(ds, fmt.Sprintf("(%s %s %d)", hex(name), arg, n))
		}
	}
	emit("deferred", ds, 12)
	// TagsAnnotation
	var gs []string
	for _, tg := range []string{"", "(K V)", "(K W)", "(K V) (L W)", "(L W) (K V)", "(tags V)"} {
		tg = strings.NewReplacer("K", hex("k"), "L", hex("l"), "V", hex("v"), "W", hex("w"), "tags", hex("tags")).Replace(tg)
		gs = append(gs, "("+tg+")")
	}
	emit("tags", gs, 6)
	// StructElement
	var es []string
	for _, o := range []string{"o", "r"} {
		for _, name := range []string{"a", "b"} {
			for _, t := range []string{"int", "str", "(opt int)"} {
				es = append(es, fmt.Sprintf("(%s %s %s)", o, hex(name), t))
			}
		}
	}
	emit("selem", es, 12)
}
