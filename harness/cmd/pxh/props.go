package main

// one blank import per property plug-in
import (
	_ "verif/harness/c11"
)
