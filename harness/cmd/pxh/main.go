// pxh: the implementation side of the correspondence check.
//
//   pxh gen <Cxx> -seed S -tier quick|thorough        → op lines on stdout
//   pxh run                                           ← op lines on stdin, one result line per op on stdout:
//                                                       <out> TAB <pred> TAB <flags>
//   pxh list                                          → registered property ids
package main

import (
	"bufio"
	"flag"
	"fmt"
	"math/rand"
	"os"
	"runtime/debug"
	"strings"
	"time"

	"verif/harness/core"
	"verif/harness/sx"

	"github.com/lyraproj/issue/issue"
	"github.com/lyraproj/pcore/pcore"
	"github.com/lyraproj/pcore/px"
)

func main() {
	if len(os.Args) < 2 {
		fmt.Fprintln(os.Stderr, "usage: pxh gen|run|list …")
		os.Exit(2)
	}
	switch os.Args[1] {
	case "list":
		for _, id := range core.IDs() {
			fmt.Println(id)
		}
	case "gen":
		gen(os.Args[2:])
	case "run":
		run(os.Args[2:])
	default:
		fmt.Fprintln(os.Stderr, "unknown command", os.Args[1])
		os.Exit(2)
	}
}

func gen(args []string) {
	fs := flag.NewFlagSet("gen", flag.ExitOnError)
	seed := fs.Int64("seed", 1, "PRNG seed")
	tier := fs.String("tier", "quick", "quick|thorough")
	if len(args) < 1 {
		fmt.Fprintln(os.Stderr, "usage: pxh gen <Cxx> [-seed S] [-tier T]")
		os.Exit(2)
	}
	id := args[0]
	_ = fs.Parse(args[1:])
	p := core.Lookup(id)
	if p == nil {
		fmt.Fprintln(os.Stderr, "unknown property", id)
		os.Exit(2)
	}
	w := bufio.NewWriterSize(os.Stdout, 1<<20)
	defer w.Flush()
	g := &core.G{Rng: rand.New(rand.NewSource(*seed)), Tier: *tier, Scale: 1}
	if *tier == "thorough" {
		g.Scale = 20
	}
	g.Emit = func(line string) {
		if strings.HasPrefix(line, "@") {
			fmt.Fprintf(w, "@%s %s\n", id, line[1:])
		} else {
			fmt.Fprintf(w, "%s %s\n", id, line)
		}
	}
	// generators may need a context (to build types and print them)
	pcore.Do(func(c px.Context) { p.Gen(g) })
}

type job struct {
	p    *core.Prop
	op   string
	args []sx.Sexp
	res  chan core.Result
}

// worker executes ops inside one long-lived pcore.Do; a fresh worker replaces it after a timeout.
func worker(jobs chan job) {
	go func() {
		pcore.Do(func(c px.Context) {
			for j := range jobs {
				j.res <- execOne(c, j)
			}
		})
	}()
}

func execOne(c px.Context, j job) (r core.Result) {
	defer func() {
		if e := recover(); e != nil {
			r = core.Result{Out: "panic " + classify(e), Pred: "FAIL harness-unrecovered " + oneLine(fmt.Sprint(e)), NonTrivial: true}
			if os.Getenv("VERIF_DEBUG") != "" {
				fmt.Fprintf(os.Stderr, "panic in %s %s: %v\n%s\n", j.p.ID, j.op, e, debug.Stack())
			}
		}
	}()
	return j.p.Exec(c, j.op, j.args)
}

func oneLine(s string) string {
	s = strings.Replace(s, "\n", " ", -1)
	s = strings.Replace(s, "\t", " ", -1)
	if len(s) > 300 {
		s = s[:300]
	}
	return s
}

// classify maps a recovered panic value to the small enum used in canonical outputs.
func classify(e interface{}) string {
	switch e := e.(type) {
	case issue.Reported:
		if strings.Contains(e.Error(), "runtime error:") {
			return "fault"
		}
		return "reported " + string(e.Code())
	case error:
		if strings.Contains(e.Error(), "runtime error:") || strings.Contains(e.Error(), "interface conversion") {
			return "fault"
		}
		return "error"
	default:
		return "other"
	}
}

func run(args []string) {
	fs := flag.NewFlagSet("run", flag.ExitOnError)
	timeout := fs.Duration("timeout", 5*time.Second, "per-op deadline")
	_ = fs.Parse(args)
	debug.SetMaxStack(256 << 20)
	in := bufio.NewReaderSize(os.Stdin, 1<<20)
	w := bufio.NewWriterSize(os.Stdout, 1<<20)
	defer w.Flush()
	jobs := make(chan job)
	worker(jobs)
	timeouts := 0
	for {
		line, err := in.ReadString('\n')
		if len(line) > 0 {
			line = strings.TrimRight(line, "\r\n")
			res := dispatch(line, &jobs, *timeout, &timeouts)
			flags := ""
			if res.NonTrivial {
				flags = "nt"
			}
			if len(res.Tags) > 0 {
				flags += " " + strings.Join(res.Tags, " ")
			}
			fmt.Fprintf(w, "%s\t%s\t%s\n", oneLineKeep(res.Out), res.Pred, flags)
			w.Flush()
		}
		if err != nil {
			break
		}
	}
}

func oneLineKeep(s string) string {
	s = strings.Replace(s, "\n", "\\n", -1)
	return strings.Replace(s, "\t", " ", -1)
}

func dispatch(line string, jobs *chan job, timeout time.Duration, timeouts *int) core.Result {
	l := strings.TrimPrefix(line, "@")
	xs, err := sx.Parse(l)
	if err != nil || len(xs) < 2 || xs[0].IsList || xs[1].IsList {
		return core.Result{Out: "bad-op", Pred: "FAIL harness-bad-op " + line}
	}
	p := core.Lookup(xs[0].Atom)
	if p == nil {
		return core.Result{Out: "bad-op", Pred: "FAIL harness-unknown-property " + xs[0].Atom}
	}
	j := job{p: p, op: xs[1].Atom, args: xs[2:], res: make(chan core.Result, 1)}
	*jobs <- j
	select {
	case r := <-j.res:
		return r
	case <-time.After(timeout):
		// the worker is stuck: abandon it (it keeps spinning) and start a fresh one
		*timeouts++
		if *timeouts > 20 {
			fmt.Fprintln(os.Stderr, "too many timeouts; aborting")
			os.Exit(3)
		}
		nj := make(chan job)
		*jobs = nj
		worker(nj)
		return core.Result{Out: "timeout", Pred: "FAIL timeout op did not finish within " + timeout.String(), NonTrivial: true}
	}
}
