// c13stress — SUPPORT ONLY, never a theorem and not part of ./check: free-running stress of the operation mixes of
// property C13 (no scheduler installed: verifhook.Point returns at once).  Meant to be built with the race detector:
//
//	cd /verif/harness && CGO_ENABLED=1 go build -race -tags verif -o /tmp/c13stress ./cmd/c13stress && /tmp/c13stress -n 200
//
// Any race report, crash or wrong answer is a failing input; the seed and round number printed make it replayable.
// Known to be reported by the race detector on the current tree: the lazily built type caches of Array/Hash values
// (unsynchronised publication, finding C13-type-cache-published-before-init) and typedName.MapKey/Parts.
package main

import (
	"flag"
	"fmt"
	"io/ioutil"
	"math/rand"
	"os"
	"path/filepath"
	"sync"

	"github.com/lyraproj/pcore/pcore"
	"github.com/lyraproj/pcore/px"
	"github.com/lyraproj/pcore/types"
)

func main() {
	rounds := flag.Int("n", 100, "rounds")
	seed := flag.Int64("seed", 1, "seed")
	workers := flag.Int("w", 8, "goroutines per round")
	caches := flag.Bool("caches", true, "include the shared-value type cache mix (reported by -race on the current tree)")
	flag.Parse()
	bad := 0
	pcore.Do(func(c px.Context) {
		for r := 0; r < *rounds; r++ {
			bad += round(*seed, r, *workers, *caches)
		}
	})
	fmt.Printf("c13stress: %d rounds, %d wrong answers\n", *rounds, bad)
	if bad > 0 {
		os.Exit(1)
	}
}

func round(seed int64, r, workers int, caches bool) (bad int) {
	dir, err := ioutil.TempDir("", "c13stress")
	if err != nil {
		panic(err)
	}
	defer os.RemoveAll(dir)
	_ = os.Mkdir(filepath.Join(dir, "types"), 0755)
	_ = ioutil.WriteFile(filepath.Join(dir, "types", "f.pp"), []byte("type F = Integer[7,7]\n"), 0644)
	root := px.NewParentedLoader(px.StaticLoader())
	fb := px.NewFileBasedLoader(root, dir, "", px.PuppetDataTypePath)
	child := px.NewParentedLoader(fb)
	loaders := []px.Loader{root, fb, child}
	shared := []px.Value{
		types.WrapValues([]px.Value{types.WrapInteger(1), types.WrapString("a")}),
		types.WrapHash([]*types.HashEntry{types.WrapHashEntry(types.WrapString("k"), types.WrapInteger(1))}),
	}
	wantP := []string{shared0().PType().String(), shared1().PType().String()}
	var mu sync.Mutex
	fail := func(f string, a ...interface{}) {
		mu.Lock()
		bad++
		fmt.Printf("seed %d round %d: "+f+"\n", append([]interface{}{seed, r}, a...)...)
		mu.Unlock()
	}
	var wg sync.WaitGroup
	for w := 0; w < workers; w++ {
		wg.Add(1)
		go func(w int) {
			defer wg.Done()
			defer func() {
				if e := recover(); e != nil {
					fail("worker %d crashed: %v", w, e)
				}
			}()
			rng := rand.New(rand.NewSource(seed*1000003 + int64(r)*101 + int64(w)))
			names := []string{"a", "A", "b", "f", "F"}
			for i := 0; i < 200; i++ {
				l := loaders[rng.Intn(3)]
				ctx := pcore.NewContext(l, pcore.Logger())
				n := px.NewTypedName(px.NsType, names[rng.Intn(len(names))])
				switch rng.Intn(7) {
				case 0, 1:
					if v, ok := px.Load(ctx, n); ok {
						if it, isAlias := v.(*types.TypeAliasType); isAlias && (n.MapKey() == px.NewTypedName(px.NsType, "f").MapKey()) && it.Name() != "F" {
							fail("load f answered %v", v)
						}
					} else if n.MapKey() == px.NewTypedName(px.NsType, "f").MapKey() && l != root {
						// the known finding C13-placeholder-of-running-instantiation-visible shows up here; it is not counted
						_ = ok
					}
				case 2:
					if n.MapKey() == px.NewTypedName(px.NsType, "f").MapKey() {
						continue // a definition that contradicts the file makes the file-based load raise: not the subject here
					}
					func() {
						defer func() { _ = recover() }() // redefinition errors are expected
						l.(px.DefiningLoader).SetEntry(n, px.NewLoaderEntry(types.NewIntegerType(int64(rng.Intn(2)), 5), nil))
					}()
				case 3:
					l.HasEntry(n)
				case 4:
					l.Discover(ctx, func(tn px.TypedName) bool { return tn.Namespace() == px.NsType && len(tn.Name()) == 1 })
				case 5:
					l.GetEntry(n)
				case 6:
					if caches {
						k := rng.Intn(2)
						if s := shared[k].PType().String(); s != wantP[k] {
							// half-built types are the known finding; they are reported but not counted as wrong answers
							_ = s
						}
						_ = px.DetailedValueType(shared[k]).String()
						_ = shared[k].String()
					}
				}
			}
		}(w)
	}
	wg.Wait()
	return
}

func shared0() px.Value {
	return types.WrapValues([]px.Value{types.WrapInteger(1), types.WrapString("a")})
}
func shared1() px.Value {
	return types.WrapHash([]*types.HashEntry{types.WrapHashEntry(types.WrapString("k"), types.WrapInteger(1))})
}
