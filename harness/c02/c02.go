// Package c02: instance-of follows the set denotation (property C02).
//
// ops (model + implementation, syntax in harness/lat/doc.go):
//
//	inst T V           t|f      the predicate: px.IsInstance(T, V) == lat.RefDen(T, V)  (the reference interpreter)
//	rxmatch xSRC xSTR  t|f      Go's regexp on the mini regexp language (keeps the model's matcher honest)
//
// '@' lines (implementation only): malformed terms and the second-tier test `t2-tree` (recursive aliases
// against a hand-written reference).
package c02

import (
	"verif/harness/core"
	"verif/harness/lat"
	"verif/harness/sx"

	"github.com/lyraproj/pcore/px"
)

func init() {
	core.Register(&core.Prop{
		ID:   "C02",
		Rule: "distinct op lines; an `inst` line is non-trivial when T is not a nullary type; every `rxmatch` line is",
		Gen:  gen,
		Exec: exec,
	})
}

// disagree: do pcore and the reference interpreter differ on (t, v)?
func disagree(env *lat.Env, t lat.Ty, v lat.Val) bool {
	ref := lat.RefDen(t, v, env.AsgTerms)
	if ref == lat.RefNA {
		return false
	}
	lt, err := env.BuildCtor(t)
	if err != nil {
		return false
	}
	lv, err := env.BuildVal(v)
	if err != nil {
		return false
	}
	impl, fault := lat.SafeInst(lt, lv)
	return fault != nil || impl != (ref == lat.RefYes)
}

// culprit descends to the first sub-term / sub-value pair on which the two still disagree and names its constructor.
func culprit(env *lat.Env, t lat.Ty, v lat.Val, depth int) string {
	if depth < 12 {
		for _, p := range lat.Parts(t, v) {
			if disagree(env, p.T, p.V) {
				return culprit(env, p.T, p.V, depth+1)
			}
		}
	}
	return t.K
}

func exec(c px.Context, op string, args []sx.Sexp) core.Result {
	if res, ok := lat.ExecTier2(c, op, args); ok {
		return res
	}
	if op != "inst" && op != "rxmatch" {
		return core.Result{Out: "bad-op", Pred: "FAIL harness-bad-op " + op}
	}
	r := lat.Exec(c, op, args)
	if res, ok := r.Generic(); ok {
		return res
	}
	if r.Status == "fault" {
		return r.Fault("panic")
	}
	if op == "rxmatch" {
		return r.Result("ok", true)
	}
	t, v := r.A[0].Ty, r.V[0]
	nt := !lat.Nullary(t)
	ref := lat.RefDen(t, v, r.Env.AsgTerms)
	if ref == lat.RefNA {
		return r.Result("n/a", nt) // Iterable: outside the reference fragment
	}
	if r.B[0] != (ref == lat.RefYes) {
		return r.Result("FAIL den-"+culprit(r.Env, t, v, 0)+" IsInstance answers "+sx.B(r.B[0])+", the set denotation says "+sx.B(ref == lat.RefYes), true)
	}
	return r.Result("ok", nt)
}

// boundary values for the outermost range of t: one below, at, and one above each end.
func boundaryVals(lg *lat.Gen, t lat.Ty) []lat.Val {
	lens := func(lo, hi int64) []int {
		var out []int
		for _, n := range []int64{lo - 1, lo, hi, hi + 1} {
			if n >= 0 && n <= 7 {
				out = append(out, int(n))
			}
		}
		return out
	}
	elems := func(n int, et func(i int) lat.Ty) (lat.Val, bool) {
		vs := make([]lat.Val, n)
		for i := range vs {
			w, ok := lg.Witness(et(i))
			if !ok {
				return lat.Val{}, false
			}
			vs[i] = w
		}
		return lat.VA(vs...), true
	}
	var out []lat.Val
	switch t.K {
	case "int":
		for _, n := range []int64{t.Lo, t.Hi} {
			out = append(out, lat.VI(n))
			if n > lat.MinI {
				out = append(out, lat.VI(n-1))
			}
			if n < lat.MaxI {
				out = append(out, lat.VI(n+1))
			}
		}
	case "tspan":
		for _, n := range []int64{t.Lo, t.Hi} {
			out = append(out, lat.VTs(n))
			if n > lat.MinI {
				out = append(out, lat.VTs(n-1))
			}
			if n < lat.MaxI {
				out = append(out, lat.VTs(n+1))
			}
		}
	case "flt":
		out = append(out, lat.VF(t.FLo), lat.VF(t.FHi), lat.VF(t.FLo-0.5), lat.VF(t.FHi+0.5))
	case "strsz":
		for _, n := range lens(t.Lo, t.Hi) {
			out = append(out, lat.VS(lg.StrOfLen(n)))
			s := ""
			for i := 0; i < n; i++ {
				s += "é" // two bytes, one character
			}
			out = append(out, lat.VS(s))
		}
	case "arr":
		for _, n := range lens(t.Lo, t.Hi) {
			if v, ok := elems(n, func(int) lat.Ty { return t.Ts[0] }); ok {
				out = append(out, v)
			}
		}
	case "coll":
		for _, n := range lens(t.Lo, t.Hi) {
			if v, ok := elems(n, func(int) lat.Ty { return lat.Atom("any") }); ok {
				out = append(out, v)
			}
			if v, ok := lg.Witness(lat.Hash(lat.StrSz(1, 3), lat.Int(0, 5), int64(n), int64(n))); ok {
				out = append(out, v)
			}
		}
	case "hash":
		for _, n := range lens(t.Lo, t.Hi) {
			if v, ok := lg.Witness(lat.Hash(t.Ts[0], t.Ts[1], int64(n), int64(n))); ok {
				out = append(out, v)
			}
		}
	case "tup":
		lo, hi := int64(len(t.Ts)), int64(len(t.Ts))
		if t.HasSize {
			lo, hi = t.Lo, t.Hi
		}
		for _, n := range append(lens(lo, hi), len(t.Ts), len(t.Ts)+1) {
			v, ok := elems(n, func(i int) lat.Ty {
				if len(t.Ts) == 0 {
					return lat.Atom("any")
				}
				if i >= len(t.Ts) {
					i = len(t.Ts) - 1
				}
				return t.Ts[i]
			})
			if ok {
				out = append(out, v)
			}
		}
	case "enum":
		for _, s := range t.S {
			out = append(out, lat.VS(s), lat.VS(upper(s)), lat.VS(s+"a"))
		}
		out = append(out, lat.VS(""))
	case "pat":
		out = append(out, lat.VS(""), lat.VS("a"), lat.VS("b"), lat.VS("ab"))
	case "struct":
		// every member absent in turn, undef-valued in turn, and an undeclared key
		full, ok := lg.Witness(t)
		if ok {
			out = append(out, full, lat.VH(append(append([]lat.Entry{}, full.Es...), lat.Entry{K: lat.VS("zz"), V: lat.VI(1)})...))
		}
		for i := range t.Ms {
			var absent, undefd []lat.Entry
			for j, m := range t.Ms {
				w, ok := lg.Witness(m.T)
				if !ok {
					w = lat.VUndef
				}
				if j != i {
					absent = append(absent, lat.Entry{K: lat.VS(m.Name), V: w})
					undefd = append(undefd, lat.Entry{K: lat.VS(m.Name), V: w})
				} else {
					undefd = append(undefd, lat.Entry{K: lat.VS(m.Name), V: lat.VUndef})
				}
			}
			out = append(out, lat.VH(absent...), lat.VH(undefd...))
		}
	}
	return out
}

func upper(s string) string {
	b := []byte(s)
	for i, c := range b {
		if 'a' <= c && c <= 'z' {
			b[i] = c - 32
		}
	}
	return string(b)
}

func gen(g *core.G) {
	lg := &lat.Gen{R: g.Rng, NoIter: true}
	u1, u2 := lat.Universe(1), lat.Universe(2)
	vals := lat.ValUniverse()

	// ---- (1) the exhaustive small universe: U1 (thorough: × every value; quick: × a sample), U2 × a sample -----
	emitU := func(ts []lat.Ty, per int, all bool) {
		for _, t := range ts {
			for _, v := range vals {
				if all || g.Rng.Intn(len(vals)) < per {
					g.Emit("inst " + t.String() + " " + v.String())
				}
			}
			for _, v := range boundaryVals(lg, t) {
				g.Emit("inst " + t.String() + " " + v.String())
			}
		}
	}
	emitU(u1, 10, g.Thorough())
	emitU(u2[len(u1):], 3*g.Scale, false)
	// ci-Enums (and cs-Enums) made by the CONSTRUCTOR from value lists in every mix of spellings and every order, and the same as type
	// TEXT (the creator's path), against every word in every spelling, the empty string and strings in no list; the case family
	lists := lat.EnumSpellingLists(g.Thorough(), g.Rng.Intn)
	for i, vs := range lists {
		for _, ci := range []bool{true, false} {
			t := lat.EnumRaw(ci, vs...).String()
			txt := lat.Txt(lat.EnumText(ci, vs)).String()
			for _, s := range lat.CaseStrings() {
				g.Emit("inst " + t + " " + lat.VS(s).String())
				if g.Thorough() || (i+len(s))%3 == 0 {
					g.Emit("inst " + txt + " " + lat.VS(s).String())
				}
			}
			if i%5 == 0 { // nested: the element type of an Array, a Variant member, a Struct member
				g.Emit("inst " + lat.Arr(lat.EnumRaw(ci, vs...), 0, 3).String() + " " + lat.VA(lat.VS("ab"), lat.VS("c")).String())
				g.Emit("inst " + lat.Var(lat.Int(0, 1), lat.EnumRaw(ci, vs...)).String() + " " + lat.VS("aB").String())
				g.Emit("inst " + lat.Struct(lat.Mem("k", false, lat.EnumRaw(ci, vs...))).String() + " " + lat.VH(lat.Entry{K: lat.VS("k"), V: lat.VS("C")}).String())
			}
		}
	}
	for _, t := range lat.CaseFamily() {
		for _, s := range lat.CaseFamilyStrings() {
			g.Emit("inst " + t.String() + " " + lat.VS(s).String())
		}
	}
	// the regexp matcher on the whole pool
	for _, src := range lat.PatSources() {
		for _, s := range lat.Strings() {
			g.Emit("rxmatch " + sx.Str(src).Atom + " " + sx.Str(s).Atom)
		}
	}

	// ---- (2) random types with witnesses, one- and two-point mutations of witnesses, boundary values -------
	for i := 0; i < 6000*g.Scale; i++ {
		lg.Alias = i%6 == 0
		lg.NoIter = i%12 != 0
		t := lg.Ty(1 + g.Rng.Intn(4))
		w, ok := lg.Witness(t)
		if !ok {
			w = lg.Val(2)
		}
		g.Emit("inst " + t.String() + " " + w.String())
		m := lg.MutateVal(w)
		g.Emit("inst " + t.String() + " " + m.String())
		if i%2 == 0 {
			g.Emit("inst " + t.String() + " " + lg.MutateVal(m).String())
		}
		if i%3 == 0 {
			g.Emit("inst " + t.String() + " " + lg.Val(2).String())
		}
		if i%4 == 0 {
			for _, v := range boundaryVals(lg, lat.StripAlias(t)) {
				g.Emit("inst " + t.String() + " " + v.String())
			}
		}
	}

	// ---- (2') the recursion guard of aliases (IsInstance): one alias object meeting the same value twice ---------------
	for _, gc := range lg.GuardCases(400 * g.Scale) {
		g.Emit("inst " + gc.A.String() + " " + gc.V.String())
		g.Emit("inst " + gc.A.String() + " " + lg.MutateVal(gc.V).String())
	}

	// ---- (2'') types given as TEXT in every parameter form of the creators (Integer[3], Enum['a','B',false], Tuple[String,1],
	// String[Integer[1,3]], Optional['x'] ...): the instance relation of what the text denotes -----------------------------------
	for _, sc := range lg.Spellings(px.CurrentContext(), 500*g.Scale) {
		tx := lat.Txt(sc.Text).String()
		w, ok := lg.Witness(sc.Ty)
		if !ok {
			w = lg.Val(2)
		}
		g.Emit("inst " + tx + " " + w.String())
		g.Emit("inst " + tx + " " + lg.MutateVal(w).String())
		for _, v := range boundaryVals(lg, sc.Ty) {
			g.Emit("inst " + tx + " " + v.String())
		}
		g.Emit("inst " + tx + " " + lat.VS("").String())
	}

	// ---- (3) malformed stream (implementation only) ----------------------------------------------------------------
	odd := []string{"(int 2 1)", "(strsz 3 1)", "(arr any 5 2)", "(var str)", "(struct (x f str))", "(obj 3)", "(enum t x41)", "(pat x28)",
		"(strsz 0 9223372036854775807)", "(tup (str) (2 1))", "(hash str any -1 1)"}
	for i := 0; i < 200; i++ {
		g.Emit("@inst " + odd[i%len(odd)] + " " + lg.Val(1).String())
	}
	lat.GenTier2(g.Emit, g.Rng, "C02")
}
