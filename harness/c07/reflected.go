// reflected.go: reflected objects (Go structs registered through the Reflector and wrapped with px.Wrap) — implementation only.
//
//   @refl I J      the equivalence laws on the I-th and J-th member of a fixed universe of reflected objects of three Go struct types
//                  (RA{X int}, RB{X int; Y string}, RC{Z int}); output "<ij> <ji>" (a reported error or fault is an observation)
// reflectedObject.Equals compared the receiver's attributes read from the argument and never the two types: objects of
// different types could be Equal one way and raise the other way (finding C07-reflected-object-equals-type, repaired in /repo
// 6bcd3e3; class reflected-equals-type only when the two operands have different types).
package c07

import (
	"fmt"
	"reflect"

	"verif/harness/core"
	"verif/harness/sx"

	"github.com/lyraproj/pcore/px"
)

type RA struct{ X int }
type RB struct {
	X int
	Y string
}
type RC struct{ Z int }

func ensureReflected(c px.Context) {
	if _, ok := px.Load(c, px.NewTypedName(px.NsType, "Verif7r::RA")); ok {
		return
	}
	rf := c.Reflector()
	px.AddTypes(c,
		rf.TypeFromReflect("Verif7r::RA", nil, reflect.TypeOf(&RA{})),
		rf.TypeFromReflect("Verif7r::RB", nil, reflect.TypeOf(&RB{})),
		rf.TypeFromReflect("Verif7r::RC", nil, reflect.TypeOf(&RC{})))
}

// reflUniverse: fresh objects on every call (separately built copies)
func reflUniverse(c px.Context) ([]px.Value, []string) {
	ensureReflected(c)
	return []px.Value{px.Wrap(c, &RA{1}), px.Wrap(c, &RA{2}), px.Wrap(c, &RB{1, "y"}), px.Wrap(c, &RB{1, "z"}), px.Wrap(c, &RB{2, "y"}), px.Wrap(c, &RC{1}), px.Wrap(c, &RC{2})},
		[]string{"RA", "RA", "RB", "RB", "RB", "RC", "RC"}
}

const nRefl = 7

func execReflected(c px.Context, args []sx.Sexp) core.Result {
	i, j := int(args[0].MustInt()), int(args[1].MustInt())
	u, kinds := reflUniverse(c)
	u2, _ := reflUniverse(c)
	if i < 0 || j < 0 || i >= len(u) || j >= len(u) {
		return core.Result{Out: "bad-op", Pred: "n/a"}
	}
	x, y := u[i], u[j]
	xy, yx := equals(x, y), equals(y, x)
	out := xy + " " + yx
	class := func(c string) string {
		if kinds[i] != kinds[j] {
			return "reflected-equals-type"
		}
		return c
	}
	switch {
	case xy == "fault" || yx == "fault":
		return core.Fail(out, class("equals-fault"), "Equals faulted")
	case xy != "t" && xy != "f", yx != "t" && yx != "f":
		return core.Fail(out, class("equals-raises"), "Equals raised: "+out)
	case xy != yx:
		return core.Fail(out, class("asymmetric"), "x.Equals(y)="+xy+" y.Equals(x)="+yx)
	case xy == "t" && kinds[i] != kinds[j]:
		return core.Fail(out, class("equal-across-types"), "objects of the types "+kinds[i]+" and "+kinds[j]+" are Equal")
	}
	if r := equals(x, u2[i]); r != "t" {
		return core.Fail(out, "copy-unequal", "a separately built copy is not Equal: "+r)
	}
	for k := range u { // transitivity through every third object
		if xy == "t" && equals(y, u[k]) == "t" && equals(x, u[k]) != "t" {
			return core.Fail(out, class("intransitive"), fmt.Sprintf("x=y and y=u[%d] but not x=u[%d]", k, k))
		}
	}
	return core.Result{Out: out, Pred: "ok", NonTrivial: true, Tags: []string{"refl:" + xy}}
}
