// objects.go: instances of Object types (attributeSlice) inside the C07 model.
//
// value syntax:  (obj (ot xNAME incl (xATTR*) (pos*)) K v1 … vn)
//   the descriptor states what attributeSlice.Equals reads of the instance's type: its name, equality_include_type, the attribute
//   names by position (inherited first) and EqualityAttributeIndex() (every position when no equality is declared); v1 … vn are the
//   values of ALL n attributes, K says how many of them the constructor is given (the others must be the attributes' defaults).
//   The harness builds the instance with px.New(type, v1 … vK) and checks (class harness-object-mismatch otherwise: a generator
//   bug, never a property failure) that the descriptor is the one AttributesInfo() reports and that every attribute reads back
//   (Get) as the stated value.  `@objcheck` checks for every pair of catalogue types that objectType.Equals holds exactly when the
//   two descriptors are equal (the model takes descriptor equality for typ.Equals).
// printed back: (obj xNAME v1 … vn)
package c07

import (
	"fmt"
	"math"
	"math/rand"
	"strings"

	"verif/harness/sx"

	"github.com/lyraproj/pcore/px"
	"github.com/lyraproj/pcore/types"
)

type objectMismatch struct{ why string }

// objCatalogue: the Object types the generator uses (declared once per context).  Attribute types are Any so that every value
// of the model can be stored; what varies is what Equals looks at: equality lists (own and inherited), equality_include_type,
// attribute order, defaults.
var objCatalogue = []struct{ name, decl string }{
	{"Verif7::A", `Object[{name => 'Verif7::A', attributes => {a => Any, b => Any}}]`},
	{"Verif7::A2", `Object[{name => 'Verif7::A2', attributes => {a => Any, b => Any}}]`},
	{"Verif7::B", `Object[{name => 'Verif7::B', attributes => {a => Any, b => Any}, equality => [a]}]`},
	{"Verif7::C", `Object[{name => 'Verif7::C', attributes => {a => Any, b => {type => Any, value => 'x'}}, equality => [b, a]}]`},
	{"Verif7::D", `Object[{name => 'Verif7::D', parent => Verif7::B, attributes => {c => Any}, equality => [c]}]`},
	{"Verif7::E", `Object[{name => 'Verif7::E', attributes => {a => Any, b => Any}, equality => [a], equality_include_type => false}]`},
	{"Verif7::F", `Object[{name => 'Verif7::F', attributes => {b => Any, a => Any}, equality => [a], equality_include_type => false}]`},
	{"Verif7::G", `Object[{name => 'Verif7::G', attributes => {a => Any, c => Any}, equality => [a], equality_include_type => false}]`},
	{"Verif7::H", `Object[{name => 'Verif7::H', attributes => {a => Any}, equality => [], equality_include_type => false}]`},
	{"Verif7::I", `Object[{name => 'Verif7::I', attributes => {a => Any, b => Any}, equality => [b, a], equality_include_type => false}]`},
	{"Verif7::J", `Object[{name => 'Verif7::J', attributes => {b => Any, a => {type => Any, value => undef}}, equality => [a, b], equality_include_type => false}]`},
	{"Verif7::K", `Object[{name => 'Verif7::K', attributes => {a => Any}, equality_include_type => false}]`},
	{"Verif7::L", `Object[{name => 'Verif7::L', attributes => {a => Any, b => Any}, equality => [b], equality_include_type => false}]`},
}

// objDescs: the generator's OWN statement of each type's descriptor (name, include type, names by position, equality positions,
// number of required attributes, defaults of the optional ones as sexps) — checked against the implementation by objectOf
var objDescs = map[string]struct {
	incl     bool
	names    []string
	eqPos    []int
	required int
	defaults []string
}{
	"Verif7::A":  {true, []string{"a", "b"}, []int{0, 1}, 2, nil},
	"Verif7::A2": {true, []string{"a", "b"}, []int{0, 1}, 2, nil},
	"Verif7::B":  {true, []string{"a", "b"}, []int{0}, 2, nil},
	"Verif7::C":  {true, []string{"a", "b"}, []int{1, 0}, 1, []string{"(s x78)"}},
	"Verif7::D":  {true, []string{"a", "b", "c"}, []int{2, 0}, 3, nil},
	"Verif7::E":  {false, []string{"a", "b"}, []int{0}, 2, nil},
	"Verif7::F":  {false, []string{"b", "a"}, []int{1}, 2, nil},
	"Verif7::G":  {false, []string{"a", "c"}, []int{0}, 2, nil},
	"Verif7::H":  {false, []string{"a"}, []int{}, 1, nil},
	"Verif7::I":  {false, []string{"a", "b"}, []int{1, 0}, 2, nil},
	"Verif7::J":  {false, []string{"b", "a"}, []int{1, 0}, 1, []string{"(u)"}},
	"Verif7::K":  {false, []string{"a"}, []int{0}, 1, nil},
	"Verif7::L":  {false, []string{"a", "b"}, []int{1}, 2, nil},
}

func ensureObjCatalogue(c px.Context) {
	if _, ok := px.Load(c, px.NewTypedName(px.NsType, objCatalogue[0].name)); ok {
		return
	}
	for _, t := range objCatalogue { // one by one: a later declaration may name an earlier type as its parent
		px.AddTypes(c, c.ParseType(t.decl))
	}
}

func objTypeByName(c px.Context, name string) px.ObjectType {
	ensureObjCatalogue(c)
	v, ok := px.Load(c, px.NewTypedName(px.NsType, name))
	if !ok {
		panic(objectMismatch{"no catalogue type " + name})
	}
	t, ok := v.(px.ObjectType)
	if !ok {
		panic(objectMismatch{name + " is not an Object type"})
	}
	return t
}

// implDesc: the descriptor as the implementation reports it
func implDesc(t px.ObjectType) string {
	ai := t.AttributesInfo()
	names := []string{}
	for _, a := range ai.Attributes() {
		names = append(names, sx.Str(a.Name()).Atom)
	}
	pos := ai.EqualityAttributeIndex()
	ps := []string{}
	if pos == nil {
		for i := range names {
			ps = append(ps, fmt.Sprint(i))
		}
	} else {
		for _, i := range pos {
			ps = append(ps, fmt.Sprint(i))
		}
	}
	incl := true
	if rd, ok := t.(px.ReadableObject); ok { // (the declaration: absent = true)
		ih, _ := rd.Get("_pcore_init_hash")
		if h, ok := ih.(px.OrderedMap); ok {
			if v, ok := h.Get4("equality_include_type"); ok {
				if b, ok := v.(px.Boolean); ok {
					incl = b.Bool()
				}
			}
		}
	}
	return "(ot " + sx.Str(t.Name()).Atom + " " + sx.B(incl) + " (" + strings.Join(names, " ") + ") (" + strings.Join(ps, " ") + "))"
}

// objectOf builds the instance (obj OT K v*) and checks the op line's statements against the implementation
func objectOf(a []sx.Sexp) px.Value {
	if len(a) < 2 {
		panic(fmt.Errorf("bad object %v", a))
	}
	c := px.CurrentContext()
	ot, k, vs := a[0], int(a[1].MustInt()), a[2:]
	t := objTypeByName(c, ot.Args()[0].MustStr())
	if got := implDesc(t); got != ot.String() {
		panic(objectMismatch{"descriptor " + ot.String() + ", the implementation reports " + got})
	}
	if k > len(vs) || len(vs) != len(t.AttributesInfo().Attributes()) {
		panic(objectMismatch{fmt.Sprintf("%d values given for %d attributes, constructor given %d", len(vs), len(t.AttributesInfo().Attributes()), k)})
	}
	args := make([]px.Value, 0, k)
	for _, v := range vs[:k] {
		args = append(args, valOf(v))
	}
	o := px.New(c, t, args...)
	po, ok := o.(px.PuppetObject)
	if !ok {
		panic(objectMismatch{"px.New did not answer an object"})
	}
	for i, at := range t.AttributesInfo().Attributes() { // every attribute reads back as stated (the defaults of the ones not given)
		got, ok := po.Get(at.Name())
		if !ok {
			panic(objectMismatch{"no attribute " + at.Name()})
		}
		if i >= k && valStr(got) != valStr(valOf(vs[i])) {
			panic(objectMismatch{fmt.Sprintf("attribute %s defaults to %s, stated %s", at.Name(), valStr(got), vs[i].String())})
		}
	}
	return o
}

func objectStr(v px.Value) (string, bool) {
	po, ok := v.(px.PuppetObject)
	if !ok {
		return "", false
	}
	t, ok := po.PType().(px.ObjectType)
	if !ok || !strings.HasPrefix(t.Name(), "Verif7::") {
		return "", false
	}
	xs := []string{}
	for _, at := range t.AttributesInfo().Attributes() {
		got, _ := po.Get(at.Name())
		xs = append(xs, " "+valStr(got))
	}
	return "(obj " + sx.Str(t.Name()).Atom + strings.Join(xs, "") + ")", true
}

// objCheck (@objcheck): objectType.Equals on two catalogue types holds exactly when their descriptors are equal
func objCheck(c px.Context) (string, bool) {
	ensureObjCatalogue(c)
	for _, x := range objCatalogue {
		for _, y := range objCatalogue {
			tx, ty := objTypeByName(c, x.name), objTypeByName(c, y.name)
			if eq := tx.Equals(ty, nil); eq != (implDesc(tx) == implDesc(ty)) {
				return fmt.Sprintf("%s.Equals(%s)=%v but descriptors %s / %s", x.name, y.name, eq, implDesc(tx), implDesc(ty)), false
			}
		}
		want := otS(x.name).String()
		if got := implDesc(objTypeByName(c, x.name)); got != want {
			return "generator states " + want + ", the implementation reports " + got, false
		}
	}
	return "", true
}

// ---- generators ---------------------------------------------------------------------------------------------------

func otS(name string) sx.Sexp {
	d := objDescs[name]
	ns, ps := []sx.Sexp{}, []sx.Sexp{}
	for _, n := range d.names {
		ns = append(ns, sx.Str(n))
	}
	for _, p := range d.eqPos {
		ps = append(ps, sx.Int(int64(p)))
	}
	return sx.T("ot", sx.Str(name), sx.Bool(d.incl), sx.L(ns...), sx.L(ps...))
}

// objS: an instance of the named type with the given values; fewer values than attributes = the rest are the defaults
func objS(name string, vals ...sx.Sexp) sx.Sexp {
	d := objDescs[name]
	k := len(vals)
	all := append([]sx.Sexp{}, vals...)
	for i := len(vals); i < len(d.names); i++ {
		all = append(all, mk(d.defaults[i-d.required]))
	}
	return sx.T("obj", append([]sx.Sexp{otS(name), sx.Int(int64(k))}, all...)...)
}

func objUniverse() []sx.Sexp {
	one, two, a, nan := iv(1), iv(2), sv("a"), fv(math.NaN())
	u := []sx.Sexp{}
	for _, n := range []string{"Verif7::A", "Verif7::A2", "Verif7::B", "Verif7::E", "Verif7::F", "Verif7::G", "Verif7::I", "Verif7::L"} {
		u = append(u, objS(n, one, two), objS(n, two, one), objS(n, one, a), objS(n, one, one))
	}
	u = append(u,
		objS("Verif7::C", one), objS("Verif7::C", one, sv("x")), objS("Verif7::C", one, sv("y")), objS("Verif7::C", two),
		objS("Verif7::D", one, two, a), objS("Verif7::D", one, a, a), objS("Verif7::D", two, two, a), objS("Verif7::D", one, two, one),
		objS("Verif7::H", one), objS("Verif7::H", two), objS("Verif7::K", one), objS("Verif7::K", two),
		objS("Verif7::J", one), objS("Verif7::J", one, mk("(u)")), objS("Verif7::J", one, two), objS("Verif7::J", two, one),
		objS("Verif7::A", av(one), hv(a, one)), objS("Verif7::A", av(one), hv(a, two)), objS("Verif7::A", objS("Verif7::K", one), two),
		objS("Verif7::A", objS("Verif7::K", two), two), objS("Verif7::E", fv(0), one), objS("Verif7::E", fv(negZero), two), objS("Verif7::A", nan, one),
		av(objS("Verif7::K", one)), hv(a, objS("Verif7::K", one)),
	)
	return u
}

func randObj(r *rand.Rand, depth int) sx.Sexp {
	name := objCatalogue[r.Intn(len(objCatalogue))].name
	d := objDescs[name]
	n := d.required
	if len(d.names) > d.required && r.Intn(2) == 0 {
		n = len(d.names)
	}
	vals := []sx.Sexp{}
	for i := 0; i < n; i++ {
		if r.Intn(3) == 0 {
			vals = append(vals, randVal(r, depth-1))
		} else {
			vals = append(vals, []sx.Sexp{iv(1), iv(2), sv("a"), mk("(u)")}[r.Intn(4)])
		}
	}
	return objS(name, vals...)
}

// mutateObj: one attribute changed, or the same values under another type of the catalogue
func mutateObj(r *rand.Rand, e sx.Sexp) (sx.Sexp, bool) {
	if e.Tag() != "obj" {
		return sx.Sexp{}, false
	}
	a := e.Args()
	name, k, vs := a[0].Args()[0].MustStr(), int(a[1].MustInt()), a[2:]
	switch r.Intn(3) {
	case 0: // another type with as many required attributes: by-name equality, or not Equal at all
		for i := 0; i < 10; i++ {
			o := objCatalogue[r.Intn(len(objCatalogue))].name
			if d := objDescs[o]; d.required <= k && k <= len(d.names) && o != name {
				return objS(o, vs[:k]...), true
			}
		}
	case 1:
		if k > 0 {
			i := r.Intn(k)
			xs := append([]sx.Sexp{}, vs[:k]...)
			xs[i] = mutate(r, xs[i])
			return objS(name, xs...), true
		}
	}
	if k >= 2 {
		xs := append([]sx.Sexp{}, vs[:k]...)
		xs[0], xs[1] = xs[1], xs[0]
		return objS(name, xs...), true
	}
	return objS(name, vs[:k]...), true
}

func equalObj(r *rand.Rand, e sx.Sexp) (sx.Sexp, bool) {
	if e.Tag() != "obj" {
		return sx.Sexp{}, false
	}
	a := e.Args()
	name, k, vs := a[0].Args()[0].MustStr(), int(a[1].MustInt()), a[2:]
	xs := []sx.Sexp{}
	for _, v := range vs[:k] {
		xs = append(xs, equalVariant(r, v))
	}
	return objS(name, xs...), true
}

var _ = types.WrapInteger
