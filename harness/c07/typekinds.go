// typekinds.go: the type constructors brought inside the C07 model in the extension round (twin of the new arms of tyOf / tyStr
// in lean/Driver/C07.lean).
//
// type syntax (beside the eleven kinds of c07.go):
//   dflt unit scalar scalardata numeric binary data richdata semverrange     the types without parameters
//   (bool n|t|f)   (coll lo hi)   (notundef T) (sensitive T) (iterable T) (iterator T)
//   (strs lo hi)  types.NewStringType(Integer[lo,hi], "")      (strv xHEX)  String['v'] (v not empty)
//   (rx xHEX)  Regexp[/p/] ("" = the default)      (pat xHEX*)  Pattern      (tref xHEX)  TypeReference
//   semver | (semver xORIG R+)  SemVer[range] (the operands of a SemVerRange value)
//   (hash K V lo hi)   (like T xNAV)   callable | (callable T+)  Callable[T1..Tn] = NewCallableType(Tuple[T1..Tn], nil, nil)
package c07

import (
	"fmt"
	"math/rand"
	"strconv"
	"strings"

	"verif/harness/sx"

	"github.com/lyraproj/pcore/px"
	"github.com/lyraproj/pcore/types"
	"github.com/lyraproj/semver/semver"
)

var nullary = map[string]func() px.Type{
	"dflt":        func() px.Type { return types.DefaultDefaultType() },
	"unit":        func() px.Type { return types.DefaultUnitType() },
	"scalar":      func() px.Type { return types.DefaultScalarType() },
	"scalardata":  func() px.Type { return types.DefaultScalarDataType() },
	"numeric":     func() px.Type { return types.DefaultNumericType() },
	"binary":      func() px.Type { return types.DefaultBinaryType() },
	"data":        func() px.Type { return types.DefaultDataType() },
	"richdata":    func() px.Type { return types.DefaultRichDataType() },
	"semverrange": func() px.Type { return types.DefaultSemVerRangeType() },
	"semver":      func() px.Type { return types.DefaultSemVerType() },
	"callable":    func() px.Type { return types.DefaultCallableType() },
	"init":        func() px.Type { return types.DefaultInitType() },
}

func kindTypeOf(e sx.Sexp) (px.Type, bool) {
	if !e.IsList {
		if f, ok := nullary[e.Atom]; ok {
			return f(), true
		}
		return nil, false
	}
	a := e.Args()
	switch e.Tag() {
	case "bool":
		if !a[0].IsList && a[0].Atom == "n" {
			return types.DefaultBooleanType(), true
		}
		return types.NewBooleanType(a[0].MustBool()), true
	case "coll":
		return types.NewCollectionType(sizeOf(a[0], a[1])), true
	case "notundef":
		return types.NewNotUndefType(typeOf(a[0])), true
	case "sensitive":
		return types.NewSensitiveType(typeOf(a[0])), true
	case "iterable":
		return types.NewIterableType(typeOf(a[0])), true
	case "iterator":
		return types.NewIteratorType(typeOf(a[0])), true
	case "strs":
		return types.NewStringType(sizeOf(a[0], a[1]), ""), true
	case "strv":
		if a[0].MustStr() == "" {
			panic(fmt.Errorf("bad type %s", e))
		}
		return types.NewStringType(nil, a[0].MustStr()), true
	case "rx":
		return types.NewRegexpType(a[0].MustStr()), true
	case "pat":
		rs := make([]*types.RegexpType, 0, len(a))
		for _, p := range a {
			rs = append(rs, types.NewRegexpType(p.MustStr()))
		}
		return types.NewPatternType(rs), true
	case "tref":
		return types.NewTypeReferenceType(a[0].MustStr()), true
	case "semver": // (semver xORIG R+): the operands of a SemVerRange value (kinds.go rangeOf)
		return types.NewSemVerType(rangeOf(a)), true
	case "hash":
		return types.NewHashType(typeOf(a[0]), typeOf(a[1]), sizeOf(a[2], a[3])), true
	case "like":
		return types.NewLikeType(typeOf(a[0]), a[1].MustStr()), true
	case "init":
		return types.NewInitType(typeOf(a[0]), nil), true
	case "struct": // (struct (xNAME s|r|o T)*): plain string key / String['name'] key / Optional['name'] key
		es := make([]*types.StructElement, 0, len(a))
		for _, m := range a {
			name, kind, vt := m.List[0].MustStr(), m.List[1].Atom, typeOf(m.List[2])
			if name == "" {
				panic(fmt.Errorf("bad struct member %s", m))
			}
			var key px.Value
			switch kind {
			case "s":
				key = types.WrapString(name)
			case "r":
				key = types.NewStringType(nil, name)
			case "o":
				key = types.NewOptionalType(types.NewStringType(nil, name))
			default:
				panic(fmt.Errorf("bad struct member %s", m))
			}
			es = append(es, types.NewStructElement(key, vt))
		}
		return types.NewStructType(es), true
	case "runtime": // (runtime xRT xNAME n|xPATTERN); the runtime `go` with a name is rejected by the constructor
		var pat *types.RegexpType
		if a[2].IsList || a[2].Atom != "n" {
			pat = types.NewRegexpType(a[2].MustStr())
		}
		return types.NewRuntimeType(a[0].MustStr(), a[1].MustStr(), pat), true
	case "callable":
		ts := make([]px.Type, 0, len(a))
		for _, t := range a {
			ts = append(ts, typeOf(t))
		}
		return types.NewCallableType(types.NewTupleType(ts, nil), nil, nil), true
	case "callablex": // (callablex n|(T*) n|R n|B): NewCallableType(params Tuple, return type, block type), each absent or given
		var ps, rt, bt px.Type
		if !a[0].IsList && a[0].Atom != "n" {
			panic(fmt.Errorf("bad type %s", e))
		}
		if a[0].IsList {
			ts := make([]px.Type, 0, len(a[0].List))
			for _, t := range a[0].List {
				ts = append(ts, typeOf(t))
			}
			ps = types.NewTupleType(ts, nil)
		}
		if a[1].IsList || a[1].Atom != "n" {
			rt = typeOf(a[1])
		}
		if a[2].IsList || a[2].Atom != "n" {
			bt = typeOf(a[2])
		}
		return types.NewCallableType(ps, rt, bt), true
	}
	return nil, false
}

func kindTypeStr(t px.Type) (string, bool) {
	sizeStr := func(tag string, sz *types.IntegerType) string {
		return fmt.Sprintf("(%s %d %d)", tag, sz.Min(), sz.Max())
	}
	un := func(tag string, c px.Type) string { return "(" + tag + " " + typeStr(c) + ")" }
	switch t := t.(type) {
	case *types.DefaultType:
		return "dflt", true
	case *types.UnitType:
		return "unit", true
	case *types.ScalarType:
		return "scalar", true
	case *types.ScalarDataType:
		return "scalardata", true
	case *types.NumericType:
		return "numeric", true
	case *types.BinaryType:
		return "binary", true
	case *types.SemVerRangeType:
		return "semverrange", true
	case *types.SemVerType:
		ps := t.Parameters()
		if len(ps) == 0 {
			return "semver", true
		}
		str := ps[0].String()
		norm := "?"
		if r, err := semver.ParseVersionRange(str); err == nil && r != nil {
			norm = r.NormalizedString()
		}
		return "(semver " + sx.Str(str).Atom + " " + sx.Str(norm).Atom + ")", true
	case *types.TypeAliasType:
		switch t.Name() {
		case "Data":
			return "data", true
		case "RichData":
			return "richdata", true
		}
	case *types.BooleanType:
		ps := t.Parameters()
		if len(ps) == 0 {
			return "(bool n)", true
		}
		return "(bool " + sx.B(ps[0].(px.Boolean).Bool()) + ")", true
	case *types.CollectionType:
		return sizeStr("coll", t.Size()), true
	case *types.NotUndefType:
		return un("notundef", t.ContainedType()), true
	case *types.SensitiveType:
		return un("sensitive", t.ContainedType()), true
	case *types.IterableType:
		return un("iterable", t.ElementType()), true
	case *types.IteratorType:
		return un("iterator", t.ElementType()), true
	case *types.RegexpType:
		return "(rx " + sx.Str(t.PatternString()).Atom + ")", true
	case *types.PatternType:
		xs := []string{}
		t.Patterns().Each(func(p px.Value) { xs = append(xs, " "+sx.Str(p.(*types.RegexpType).PatternString()).Atom) })
		return "(pat" + strings.Join(xs, "") + ")", true
	case *types.TypeReferenceType:
		return "(tref " + sx.Str(t.TypeString()).Atom + ")", true
	case *types.HashType:
		sz := t.Size()
		return fmt.Sprintf("(hash %s %s %d %d)", typeStr(t.KeyType()), typeStr(t.ValueType()), sz.Min(), sz.Max()), true
	case *types.RuntimeType: // read back from the parameters: [runtime, name unless empty, pattern if any] (none for the default)
		rts, name, pat := "", "", "n"
		ps := t.Parameters()
		if len(ps) > 0 {
			rts = ps[0].String()
			if r, ok := ps[len(ps)-1].(*types.RegexpType); ok {
				pat = sx.Str(r.PatternString()).Atom
			}
			if len(ps) > 1 {
				if s, ok := ps[1].(px.StringValue); ok {
					name = s.String()
				}
			}
		}
		return "(runtime " + sx.Str(rts).Atom + " " + sx.Str(name).Atom + " " + pat + ")", true
	case *types.InitType:
		if len(t.Parameters()) == 0 {
			return "init", true
		}
		if ct, ok := t.Parameters()[0].(px.Type); ok && len(t.Parameters()) == 1 {
			return "(init " + typeStr(ct) + ")", true
		}
	case *types.StructType:
		xs := []string{}
		for _, m := range t.Elements() {
			k := "r"
			if m.Optional() {
				k = "o"
			}
			xs = append(xs, " ("+sx.Str(m.Name()).Atom+" "+k+" "+typeStr(m.Value())+")")
		}
		return "(struct" + strings.Join(xs, "") + ")", true
	case *types.LikeType:
		base, _ := t.Get("base_type")
		nav, _ := t.Get("navigation")
		return "(like " + typeStr(base.(px.Type)) + " " + sx.Str(nav.String()).Atom + ")", true
	case *types.CallableType:
		ps, rs, bs := "n", "n", "n"
		xs := []string{}
		if t.ParametersType() != nil {
			if pt, ok := t.ParametersType().(*types.TupleType); ok && pt != nil {
				for _, m := range pt.Types() {
					xs = append(xs, typeStr(m))
				}
				ps = "(" + strings.Join(xs, " ") + ")"
			}
		}
		if rt := t.ReturnType(); rt != nil {
			rs = typeStr(rt)
		}
		if bt := t.BlockType(); bt != nil {
			bs = typeStr(bt)
		}
		switch {
		case rs == "n" && bs == "n" && ps == "n":
			return "callable", true
		case rs == "n" && bs == "n":
			if len(xs) == 0 {
				return "(callable)", true
			}
			return "(callable " + strings.Join(xs, " ") + ")", true
		}
		return "(callablex " + ps + " " + rs + " " + bs + ")", true
	case px.StringType:
		if v := t.Value(); v != nil {
			return "(strv " + sx.Str(*v).Atom + ")", true
		}
		if sz, ok := t.Size().(*types.IntegerType); ok && !(sz.Min() == 0 && sz.Max() == 9223372036854775807) {
			return sizeStr("strs", sz), true
		}
	}
	return "", false
}

// unresolvable: the type expression mentions a kind about which an assignability question raises (Like: unresolved; Init: no
// constructor) — such types cannot be the value type of a Struct member (NewStructElement asks)
func unresolvable(t string) bool { return strings.Contains(t, "like") || strings.Contains(t, "init") }

// callableNodes collects the Callable type expressions of the trees
func callableNodes(e sx.Sexp, out *[]string) {
	if e.Tag() == "callable" || (!e.IsList && e.Atom == "callable") {
		*out = append(*out, e.String())
		return
	}
	for _, k := range e.List {
		callableNodes(k, out)
	}
}

// callablePair: among the operands there are two DIFFERENT Callable types (CallableType.Equals answered true for any two, their
// keys differ): the class of the former finding C07-callable-all-equal (repaired in /repo 3d635fb / a044786; on the repaired
// tree no failure has this class)
func callablePair(es ...sx.Sexp) bool {
	var ns []string
	for _, e := range es {
		callableNodes(e, &ns)
	}
	for i := range ns {
		for j := i + 1; j < len(ns); j++ {
			if ns[i] != ns[j] {
				return true
			}
		}
	}
	return false
}

// ---- generators ---------------------------------------------------------------------------------------------------

var kindTypeLits = []string{
	"dflt", "unit", "scalar", "scalardata", "numeric", "binary", "data", "richdata", "semverrange",
	"(bool n)", "(bool t)", "(bool f)", "(coll 0 " + maxS + ")", "(coll 1 2)", "(coll 0 2)", "(coll 1 " + maxS + ")",
	"(notundef any)", "(notundef str)", "(notundef (strv x61))", "(notundef (enum f x61))", "(notundef (notundef str))",
	"(opt (strv x61))", "(opt (strv x62))", "(opt (enum f x61))", "(typ (strv x61))", "(opt (notundef (strv x61)))",
	"(sensitive any)", "(sensitive str)", "(sensitive (strv x61))", "(iterable any)", "(iterable str)", "(iterator any)", "(iterator str)", "(iterable (iterator str))",
	"(strs 1 2)", "(strs 0 2)", "(strs -5 2)", "(strs 1 " + maxS + ")", "(strs 0 " + maxS + ")", "(strs 2 2)",
	"(strv x61)", "(strv x62)", "(strv x6162)", "(strv x537472696e67)",
	"(rx x)", "(rx x61)", "(rx x62)", "(rx x617c62)", "(pat)", "(pat x61)", "(pat x62)", "(pat x61 x62)", "(pat x62 x61)", "(pat x61 x61)", "(pat x61 x61 x62)", "(pat x61 x62 x62)", "(pat x6162)",
	"(arr unit 0 0)", "(arr unit 0 1)", "(arr any 0 0)", "(arr unit 0 " + maxS + ")", "(tup (unit))",
	"(hash any any 0 " + maxS + ")", "(hash any any 0 0)", "(hash unit unit 0 0)", "(hash unit unit 0 1)", "(hash str any 0 " + maxS + ")", "(hash any str 0 " + maxS + ")",
	"(hash str (int 1 2) 0 " + maxS + ")", "(hash (int 1 2) str 0 " + maxS + ")", "(hash str (int 1 2) 1 2)", "(hash str (int 1 2) 1 " + maxS + ")", "(hash any unit 0 0)", "(hash (var str undef) str 0 3)", "(hash (var undef str) str 0 3)",
	"(runtime x x n)", "(runtime x x78 n)", "(runtime x x79 n)", "(runtime x72756279 x n)", "(runtime x72756279 x78 n)", "(runtime x72756279 x79 n)", "(runtime x72756279 x78 x79)",
	"(runtime x72756279 x78 x)", "(runtime x72756279 x x79)", "(runtime x72756279 x x78)", "(runtime x x x79)", "(runtime x6a617661 x78 n)", "(runtime x676f x n)",
	"(struct)", "(struct (x61 s (int 1 2)))", "(struct (x61 r (int 1 2)))", "(struct (x61 o (int 1 2)))", "(struct (x61 s (opt (int 1 2))))", "(struct (x61 r (opt (int 1 2))))",
	"(struct (x61 o (opt (int 1 2))))", "(struct (x61 s (int 1 2)) (x62 s str))", "(struct (x62 s str) (x61 s (int 1 2)))", "(struct (x62 s (int 1 2)))", "(struct (x61 s any))", "(struct (x61 r any))",
	"(struct (x4f7074696f6e616c5b2761275d s (int 1 2)))", "(struct (x4e6f74556e6465665b2761275d s (opt (int 1 2))))", "(struct (x61 s (var str undef)))", "(struct (x61 s (var undef str)))",
	"(struct (x61 s (struct (x62 s str))))", "(struct (x61 s data))", "(struct (x61 s unit))", "(struct (x61030c017409017349 s str))",
	"init", "(init any)", "(init str)", "(init (int 1 2))", "(init (var str undef))", "(init (var undef str))", "(init init)", "(init (init str))",
	"(like any x)", "(like str x)", "(like str x61)", "(like str x62)", "(like any x61)", "(like (int 1 2) x61)",
	"callable", "(callable)", "(callable str)", "(callable (int 1 2))", "(callable str (int 1 2))", "(callable unit str)", "(callable str unit)", "(callable unit)",
	"(callable (var str undef))", "(callable (var undef str))",
	"(callablex n str n)", "(callablex n (int 1 2) n)", "(callablex (str) str n)", "(callablex (str) n callable)", "(callablex (str) n (callable str))", "(callablex n n callable)",
	"(callablex (str) (int 1 2) (callable str))", "(callablex () str n)", "(callablex n undef n)", "(callablex (str) (var str undef) n)", "(callablex (str) (var undef str) n)",
	"(tref x466f6f)", "(tref x426172)", "(tref x556e7265736f6c7665645265666572656e6365)", "(tref x)",
	"semver", "(semver x312e78 (se (ge 1 0 0 x x) (lt 2 0 0 x x)))", "(semver x (se (ge 1 0 0 x x) (lt 2 0 0 x x)))", "(semver x3e3d312e302e30203c322e302e30 (se (ge 1 0 0 x x) (lt 2 0 0 x x)))",
	"(semver x322e78 (se (ge 2 0 0 x x) (lt 3 0 0 x x)))", "(semver x312e322e33 (eq 1 2 3 x x))", "(semver x (eq 1 2 3 x x))", "(semver x312e78207c7c20332e78 (se (ge 1 0 0 x x) (lt 2 0 0 x x)) (se (ge 3 0 0 x x) (lt 4 0 0 x x)))",
	"(enum f x61)", "(arr (strv x61) 0 " + maxS + ")", "(var (strv x61) (strv x62))", "(var (strv x62) (strv x61))", "(tup ((strv x61) (bool t)))",
}

// typeUniverse: the type values of both rounds
func typeUniverse() []sx.Sexp {
	u := []sx.Sexp{}
	for _, e := range universe() {
		if e.Tag() == "t" {
			u = append(u, e)
		}
	}
	for _, t := range kindTypeLits {
		u = append(u, tv(t))
	}
	return u
}

var rxSrcs = []string{"", "a", "b", "a|b", "^x$", ".*", "ab"}

func randKindType(r *rand.Rand, depth int) string {
	sub := func() string {
		if depth <= 0 {
			return []string{"str", "any", "(strv x61)", "(int 1 2)", "undef"}[r.Intn(5)]
		}
		return randType(r, depth-1)
	}
	size := func() string {
		lo := int64(r.Intn(3))
		hi := strconv.FormatInt(lo+int64(r.Intn(3)), 10)
		if r.Intn(3) == 0 {
			hi = maxS
		}
		return strconv.FormatInt(lo, 10) + " " + hi
	}
	switch r.Intn(19) {
	case 18:
		ps, rt, bt := "n", "n", "n"
		if r.Intn(3) > 0 {
			ps = "(" + sub() + ")"
		}
		if r.Intn(2) == 0 {
			rt = sub()
		}
		if r.Intn(3) == 0 {
			bt = []string{"callable", "(callable str)"}[r.Intn(2)]
		}
		if strings.Contains(ps, "like") { // Like types do not resolve (assignability questions raise)
			ps = "(str)"
		}
		if strings.Contains(rt, "like") {
			rt = "str"
		}
		return "(callablex " + ps + " " + rt + " " + bt + ")"
	case 17:
		n := r.Intn(3)
		s := "(struct"
		for i := 0; i < n; i++ {
			v := sub()
			if unresolvable(v) { // NewStructElement asks whether the value type accepts undef: a Like type does not resolve, an Init type looks for a constructor
				v = "str"
			}
			s += " (" + sx.Str([]string{"a", "b", "Optional['a']"}[r.Intn(3)]).Atom + " " + []string{"s", "r", "o"}[r.Intn(3)] + " " + v + ")"
		}
		return s + ")"
	case 16:
		rt := []string{"", "ruby", "java"}[r.Intn(3)]
		pat := "n"
		if r.Intn(3) == 0 {
			pat = sx.Str(rxSrcs[r.Intn(len(rxSrcs))]).Atom
		}
		return "(runtime " + sx.Str(rt).Atom + " " + sx.Str([]string{"", "x", "y"}[r.Intn(3)]).Atom + " " + pat + ")"
	case 13:
		return "(hash " + sub() + " " + sub() + " " + size() + ")"
	case 14:
		return "(like " + sub() + " " + sx.Str([]string{"", "a", "b", "a.b"}[r.Intn(4)]).Atom + ")"
	case 15:
		n := r.Intn(4) - 1
		if n < 0 {
			return "callable"
		}
		s := "(callable"
		for i := 0; i < n; i++ {
			s += " " + sub()
		}
		return s + ")"
	case 12:
		rv, _ := rangeVals()
		v := rv[r.Intn(len(rv))]
		return "(semver" + v.String()[3:]
	case 0:
		return []string{"semver", "dflt", "unit", "scalar", "scalardata", "numeric", "binary", "data", "richdata", "semverrange"}[r.Intn(9)]
	case 1:
		return []string{"(bool n)", "(bool t)", "(bool f)"}[r.Intn(3)]
	case 2:
		return "(coll " + size() + ")"
	case 3, 4:
		return "(" + []string{"notundef", "sensitive", "iterable", "iterator", "notundef", "opt", "init"}[r.Intn(7)] + " " + sub() + ")"
	case 5:
		if r.Intn(4) == 0 {
			return "(strs -" + strconv.Itoa(r.Intn(3)) + " " + strconv.Itoa(r.Intn(3)) + ")"
		}
		return "(strs " + size() + ")"
	case 6, 7:
		return "(strv " + sx.Str([]string{"a", "b", "ab", "String", "\x01s"}[r.Intn(5)]).Atom + ")"
	case 8:
		return "(rx " + sx.Str(rxSrcs[r.Intn(len(rxSrcs))]).Atom + ")"
	case 9, 10:
		n := r.Intn(4)
		s := "(pat"
		for i := 0; i < n; i++ {
			s += " " + sx.Str(rxSrcs[1+r.Intn(len(rxSrcs)-1)]).Atom
		}
		return s + ")"
	default:
		return "(tref " + sx.Str([]string{"Foo", "Bar", "UnresolvedReference", "foo"}[r.Intn(4)]).Atom + ")"
	}
}

// mutKindType: one-point mutations and cross-kind near misses of the new type kinds
func mutKindType(r *rand.Rand, t sx.Sexp) (sx.Sexp, bool) {
	if !t.IsList {
		if _, ok := nullary[t.Atom]; ok {
			return mk([]string{"dflt", "unit", "scalar", "scalardata", "numeric", "binary", "data", "richdata", "semverrange", "any"}[r.Intn(10)]), true
		}
		return sx.Sexp{}, false
	}
	a := t.Args()
	switch t.Tag() {
	case "bool":
		return mk([]string{"(bool n)", "(bool t)", "(bool f)"}[r.Intn(3)]), true
	case "coll", "strs":
		switch r.Intn(3) {
		case 0:
			return sx.T(t.Tag(), a[0], sx.A(maxS)), true
		case 1:
			return sx.T(t.Tag(), sx.Int(a[0].MustInt()+1), sx.A(maxS)), true
		}
		if t.Tag() == "coll" {
			return sx.T("arr", mk("any"), a[0], a[1]), true
		}
		return sx.T("coll", a[0], a[1]), a[0].MustInt() >= 0
	case "init":
		switch r.Intn(3) {
		case 0:
			return mk("init"), true
		case 1:
			return sx.T("typ", a[0]), true
		}
		return sx.T("init", mutType(r, a[0])), true
	case "notundef", "sensitive", "iterable", "iterator":
		switch r.Intn(4) {
		case 0:
			return sx.T([]string{"notundef", "sensitive", "iterable", "iterator", "opt", "typ"}[r.Intn(6)], a[0]), true
		case 1:
			return a[0], true
		}
		return sx.T(t.Tag(), mutType(r, a[0])), true
	case "strv":
		v := a[0].MustStr()
		switch r.Intn(5) {
		case 0:
			return sx.T("enum", sx.A("f"), a[0]), true // Enum['v'] / String['v']
		case 1:
			return sx.T("pat", a[0]), true
		case 2:
			return sx.T("strv", sx.Str(v+"b")), true
		case 3:
			return sx.T("opt", t), true
		}
		return mk("str"), true
	case "rx":
		switch r.Intn(3) {
		case 0:
			return sx.T("pat", a[0]), true
		case 1:
			return sx.T("rx", sx.Str(a[0].MustStr()+"b")), true
		}
		return sx.T("strv", sx.Str(a[0].MustStr()+"x")), true
	case "pat":
		if len(a) > 1 && r.Intn(2) == 0 {
			xs := append([]sx.Sexp{}, a...)
			r.Shuffle(len(xs), func(i, j int) { xs[i], xs[j] = xs[j], xs[i] })
			return sx.T("pat", xs...), true
		}
		if len(a) > 0 {
			i := r.Intn(len(a))
			xs := append([]sx.Sexp{}, a...)
			switch r.Intn(3) {
			case 0:
				xs = append(xs, xs[i]) // repeat a pattern
			case 1:
				xs[i] = sx.Str(xs[i].MustStr() + "b")
			default:
				if len(a) > 1 { // join two patterns
					return sx.T("pat", append([]sx.Sexp{sx.Str(a[0].MustStr() + a[1].MustStr())}, a[2:]...)...), true
				}
				return sx.T("rx", a[0]), true
			}
			return sx.T("pat", xs...), true
		}
		return mk("(pat x61)"), true
	case "tref":
		return sx.T("tref", sx.Str(a[0].MustStr()+"x")), true
	case "hash":
		xs := append([]sx.Sexp{}, a...)
		switch r.Intn(5) {
		case 0:
			xs[0] = mutType(r, a[0])
		case 1:
			xs[1] = mutType(r, a[1])
		case 2:
			xs[0], xs[1] = a[1], a[0]
		case 3:
			xs[3] = sx.A(maxS)
		default:
			return sx.T("arr", a[1], a[2], a[3]), true
		}
		return sx.T("hash", xs...), true
	case "like":
		if r.Intn(2) == 0 {
			return sx.T("like", mutType(r, a[0]), a[1]), true
		}
		return sx.T("like", a[0], sx.Str(a[1].MustStr()+"x")), true
	case "struct":
		if len(a) == 0 {
			return mk("(struct (x61 s str))"), true
		}
		i := r.Intn(len(a))
		xs := append([]sx.Sexp{}, a...)
		m := a[i].List
		switch r.Intn(5) {
		case 0:
			xs[i] = sx.L(sx.Str(m[0].MustStr()+"x"), m[1], m[2])
		case 1:
			xs[i] = sx.L(m[0], sx.A([]string{"s", "r", "o"}[r.Intn(3)]), m[2])
		case 2:
			if v := mutType(r, m[2]); !unresolvable(v.String()) {
				xs[i] = sx.L(m[0], m[1], v)
			}
		case 3:
			r.Shuffle(len(xs), func(i, j int) { xs[i], xs[j] = xs[j], xs[i] })
		default:
			xs = append(xs[:i], xs[i+1:]...)
		}
		return sx.T("struct", xs...), true
	case "runtime":
		xs := append([]sx.Sexp{}, a...)
		switch r.Intn(4) {
		case 0:
			xs[0] = sx.Str([]string{"", "ruby", "java"}[r.Intn(3)])
		case 1:
			xs[1] = sx.Str(a[1].MustStr() + "x")
		case 2:
			if a[2].IsList || a[2].Atom != "n" {
				xs[2] = sx.A("n")
			} else {
				xs[2] = sx.Str("y")
			}
		default:
			xs[1] = sx.Str("")
		}
		return sx.T("runtime", xs...), true
	case "callablex":
		xs := append([]sx.Sexp{}, a...)
		i := r.Intn(3)
		if xs[i].IsList || xs[i].Atom != "n" {
			if r.Intn(2) == 0 {
				xs[i] = sx.A("n")
			} else if i > 0 {
				xs[i] = mutType(r, xs[i])
			} else {
				xs[i] = sx.L(append(append([]sx.Sexp{}, xs[i].List...), mk("str"))...)
			}
		} else if i == 0 {
			xs[i] = sx.L(mk("str"))
		} else {
			xs[i] = mk("str")
		}
		return sx.T("callablex", xs...), true
	case "callable":
		if r.Intn(3) == 0 {
			return sx.T("callablex", sx.L(a...), mk("str"), sx.A("n")), true
		}
		if r.Intn(2) == 0 {
			return sx.T("tup", sx.L(a...)), true
		}
		return sx.T("callable", append(append([]sx.Sexp{}, a...), mk("str"))...), true
	case "semver":
		rv, _ := rangeVals()
		if r.Intn(2) == 0 { // another spelling of the same ranges (Equal, one key)
			for i := 0; i < 20; i++ {
				if o := rv[r.Intn(len(rv))]; refNorm(o.Args()[1:]) == refNorm(a[1:]) {
					return mk("(semver" + o.String()[3:]), true
				}
			}
		}
		return mk("(semver" + rv[r.Intn(len(rv))].String()[3:]), true
	}
	return sx.Sexp{}, false
}
