// kinds.go: the value kinds brought inside the C07 model in the extension round (twin of the `uri`/`ver`/`vr`/`tn`/`df`/`par`
// arms of lean/Driver/C07.lean and of lean/Pcore/Model/ValueEqVer.lean).
//
// value syntax
//   (uri xHEX)                          URI; the string must be a fixpoint of url.Parse(..).String() (the generator checks)
//   (ver MAJ MIN PAT xPRE xBUILD)       SemVer built by semver.NewVersion3 (an error → both sides print `bad-op`)
//   (vmin)                              semver.Min (pre-release list empty but not nil: prints 0.0.0-)
//   (vr xORIG R+)                       SemVerRange: ORIG = the string handed to ParseVersionRange ("" = built through the API, no
//                                       original string); R+ = the ranges it parses to, R = (eq V) (ge V) (gt V) (le V) (lt V) or
//                                       (se B B), V = MAJ MIN PAT xPRE xBUILD.  The range grammar is NOT in the model: the harness
//                                       checks that NormalizedString() of what it built is its own print of R+ (class
//                                       harness-range-mismatch otherwise: a generator bug, never a property failure)
//   (tn xAUTH xNS xNAME)                TypedName (px.NewTypedName2)
//   (df xNAME v*)                       Deferred
//   (par xNAME T n|(v V) CAPT)          Parameter (px.NewParameter)
// printed back: (ver MAJ MIN PAT n|xPRE xBUILD), (vr xSTRING xNORMALIZED), the others as read (a TypedName without the leading ::).
package c07

import (
	"fmt"
	"math"
	"math/rand"
	"net/url"
	"strconv"
	"strings"

	"verif/harness/sx"

	"github.com/lyraproj/pcore/px"
	"github.com/lyraproj/pcore/types"
	"github.com/lyraproj/semver/semver"
)

// badOp: the op's operands cannot be built (NewVersion3 returned an error); both sides print `bad-op`
type badOp struct{ why string }

type rangeMismatch struct{ why string }

func versionOf(a []sx.Sexp) semver.Version {
	if len(a) != 5 {
		panic(fmt.Errorf("bad version %v", a))
	}
	v, err := semver.NewVersion3(int(a[0].MustInt()), int(a[1].MustInt()), int(a[2].MustInt()), a[3].MustStr(), a[4].MustStr())
	if err != nil {
		panic(badOp{err.Error()})
	}
	return v
}

// refVersion: the harness's own print of a version (the components are printed as given)
func refVersion(a []sx.Sexp) string {
	s := fmt.Sprintf("%d.%d.%d", a[0].MustInt(), a[1].MustInt(), a[2].MustInt())
	if p := a[3].MustStr(); p != "" {
		s += "-" + p
	}
	if b := a[4].MustStr(); b != "" {
		s += "+" + b
	}
	return s
}

var opText = map[string]string{"eq": "", "ge": ">=", "gt": ">", "le": "<=", "lt": "<"}

func refBound(b sx.Sexp) string {
	op, ok := opText[b.Tag()]
	if !ok {
		panic(fmt.Errorf("bad bound %s", b))
	}
	return op + refVersion(b.Args())
}

func refRange(r sx.Sexp) string {
	if r.Tag() == "se" {
		return refBound(r.Args()[0]) + " " + refBound(r.Args()[1])
	}
	return refBound(r)
}

func refNorm(rs []sx.Sexp) string {
	xs := make([]string, len(rs))
	for i, r := range rs {
		xs[i] = refRange(r)
	}
	return strings.Join(xs, " || ")
}

func rangeOf(a []sx.Sexp) semver.VersionRange {
	if len(a) < 2 {
		panic(badOp{"a range without ranges"})
	}
	orig, rs := a[0].MustStr(), a[1:]
	for _, r := range rs { // every version in it must be constructible (else bad-op on both sides)
		if r.Tag() == "se" {
			versionOf(r.Args()[0].Args())
			versionOf(r.Args()[1].Args())
		} else {
			versionOf(r.Args())
		}
	}
	want := refNorm(rs)
	var r semver.VersionRange
	switch {
	case orig != "":
		var err error
		if r, err = semver.ParseVersionRange(orig); err != nil || r == nil {
			panic(rangeMismatch{fmt.Sprintf("%q does not parse: %v", orig, err)})
		}
		if r.String() != orig {
			panic(rangeMismatch{fmt.Sprintf("%q is kept as %q", orig, r.String())})
		}
	case len(rs) == 1 && rs[0].Tag() == "eq":
		r = semver.ExactVersionRange(versionOf(rs[0].Args()))
	default:
		// every range by itself without an original string (an exact version directly; any other range as the
		// intersection of its parsed print with `*`), then merged
		for _, one := range rs {
			var part semver.VersionRange
			if one.Tag() == "eq" {
				part = semver.ExactVersionRange(versionOf(one.Args()))
			} else {
				p, err := semver.ParseVersionRange(refRange(one))
				if err != nil || p == nil {
					panic(rangeMismatch{fmt.Sprintf("%q does not parse: %v", refRange(one), err)})
				}
				if part = p.Intersection(semver.MatchAll); part == nil {
					panic(rangeMismatch{fmt.Sprintf("%q has no intersection with *", refRange(one))})
				}
			}
			if r == nil {
				r = part
			} else {
				r = r.Merge(part)
			}
		}
	}
	if got := r.NormalizedString(); got != want {
		panic(rangeMismatch{fmt.Sprintf("original %q: normalized %q, stated %q", orig, got, want)})
	}
	if orig == "" && r.String() != want {
		panic(rangeMismatch{fmt.Sprintf("built without an original string but prints %q, normalized %q", r.String(), want)})
	}
	return r
}

// kindValOf: the new kinds; ok=false when the tag is not one of them
func kindValOf(e sx.Sexp) (px.Value, bool) {
	a := e.Args()
	switch e.Tag() {
	case "uri":
		return types.WrapURI2(a[0].MustStr()), true
	case "ver":
		return types.WrapSemVer(versionOf(a)), true
	case "vmin":
		return types.WrapSemVer(semver.Min), true
	case "vr":
		return types.WrapSemVerRange(rangeOf(a)), true
	case "tn":
		return px.NewTypedName2(px.Namespace(a[1].MustStr()), a[2].MustStr(), px.URI(a[0].MustStr())), true
	case "df":
		args := make([]px.Value, 0, len(a)-1)
		for _, k := range a[1:] {
			args = append(args, valOf(k))
		}
		return types.NewDeferred(a[0].MustStr(), args...), true
	case "obj":
		return objectOf(a), true
	case "par":
		var v px.Value
		if a[2].IsList {
			v = valOf(a[2].Args()[0])
		}
		return px.NewParameter(a[0].MustStr(), typeOf(a[1]), v, a[3].MustBool()), true
	}
	return nil, false
}

func kindValStr(v px.Value) (string, bool) {
	if s, ok := objectStr(v); ok {
		return s, true
	}
	switch v := v.(type) {
	case *types.SemVer:
		ver := v.Version()
		pre := "n"
		if !ver.IsStable() {
			pre = sx.Str(ver.PreRelease()).Atom
		}
		return fmt.Sprintf("(ver %d %d %d %s %s)", ver.Major(), ver.Minor(), ver.Patch(), pre, sx.Str(ver.Build()).Atom), true
	case *types.SemVerRange:
		r := v.VersionRange()
		return "(vr " + sx.Str(r.String()).Atom + " " + sx.Str(r.NormalizedString()).Atom + ")", true
	case px.TypedName:
		return "(tn " + sx.Str(string(v.Authority())).Atom + " " + sx.Str(string(v.Namespace())).Atom + " " + sx.Str(v.Name()).Atom + ")", true
	case types.Deferred:
		xs := []string{}
		v.Arguments().Each(func(e px.Value) { xs = append(xs, " "+valStr(e)) })
		return "(df " + sx.Str(v.Name()).Atom + strings.Join(xs, "") + ")", true
	case px.Parameter:
		val := "n"
		if v.HasValue() {
			val = "(v " + valStr(v.Value()) + ")"
		}
		return "(par " + sx.Str(v.Name()).Atom + " " + typeStr(v.Type()) + " " + val + " " + sx.B(v.CapturesRest()) + ")", true
	}
	return "", false
}

// noKeyTag: a value of this kind has no ToKey at all (px.ToKey reports INVALID_MAP_KEY), and neither has a container of one
func noKeyTag(tag string) bool {
	switch tag {
	case "sens", "tn", "df", "par", "obj":
		return true
	}
	return false
}

// keyableSexp: px.ToKey of the value does not report INVALID_MAP_KEY
func keyableSexp(e sx.Sexp) bool {
	if noKeyTag(e.Tag()) {
		return false
	}
	if e.Tag() == "t" {
		return true
	}
	for _, k := range e.List {
		if k.IsList && !keyableSexp(k) {
			return false
		}
	}
	return true
}

// keyableVal: the same question asked of the built value (a MutableHashValue may have dropped an entry that the op line
// lists: Put replaces the entry indexed under the same key bytes)
func keyableVal(v px.Value) bool {
	if h, ok := asHash(v); ok {
		v = h
	}
	switch v := v.(type) {
	case *types.Sensitive, px.TypedName, types.Deferred, px.Parameter, px.PuppetObject:
		return false
	case *types.Array:
		ok := true
		v.Each(func(e px.Value) { ok = ok && keyableVal(e) })
		return ok
	case *types.Hash:
		ok := true
		v.EachPair(func(k, e px.Value) { ok = ok && keyableVal(k) && keyableVal(e) })
		return ok
	case *types.HashEntry:
		return keyableVal(v.Key()) && keyableVal(v.Value())
	}
	return true
}

// forceKind touches what the new kinds compute lazily (typedName.canonical, typedName.parts)
func forceKind(v px.Value) {
	switch v := v.(type) {
	case px.TypedName:
		_ = safely(func() { _ = v.MapKey() })
		_ = safely(func() { _ = v.Parts() })
	case types.Deferred:
		v.Arguments().Each(force)
	case px.Parameter:
		force(v.Value())
		force(v.Type())
	case px.PuppetObject:
		if t, ok := v.PType().(px.ObjectType); ok && strings.HasPrefix(t.Name(), "Verif7::") {
			for _, at := range t.AttributesInfo().Attributes() {
				if e, ok := v.Get(at.Name()); ok {
					force(e)
				}
			}
		}
	}
}

// rangeNodes collects the (vr …) nodes of the trees
func rangeNodes(e sx.Sexp, out *[]sx.Sexp) {
	if e.Tag() == "vr" {
		*out = append(*out, e)
		return
	}
	for _, k := range e.List {
		if k.IsList {
			rangeNodes(k, out)
		}
	}
}

// rangeOriginal: among the operands there are two SemVerRanges with the same ranges that print differently (the key of a
// SemVerRange WAS the string it was parsed from, Equals compares the parsed ranges): the class of the former finding
// C07-semver-range-original-key (repaired in /repo 2f932dc; on the repaired tree no failure has this class)
func rangeOriginal(es ...sx.Sexp) bool {
	var ns []sx.Sexp
	for _, e := range es {
		rangeNodes(e, &ns)
	}
	text := func(n sx.Sexp) string {
		if o := n.Args()[0].MustStr(); o != "" {
			return o
		}
		return refNorm(n.Args()[1:])
	}
	for i := range ns {
		for j := i + 1; j < len(ns); j++ {
			if refNorm(ns[i].Args()[1:]) == refNorm(ns[j].Args()[1:]) && text(ns[i]) != text(ns[j]) {
				return true
			}
		}
	}
	return false
}

// ---- generators ---------------------------------------------------------------------------------------------------

func verS(maj, min, pat int64, pre, build string) sx.Sexp {
	return sx.T("ver", sx.Int(maj), sx.Int(min), sx.Int(pat), sx.Str(pre), sx.Str(build))
}

func uriS(s string) sx.Sexp { return sx.T("uri", sx.Str(s)) }

func tnS(auth, ns, name string) sx.Sexp { return sx.T("tn", sx.Str(auth), sx.Str(ns), sx.Str(name)) }

func dfS(name string, args ...sx.Sexp) sx.Sexp {
	return sx.T("df", append([]sx.Sexp{sx.Str(name)}, args...)...)
}

func parS(name, typ string, val *sx.Sexp, capt bool) sx.Sexp {
	v := sx.A("n")
	if val != nil {
		v = sx.T("v", *val)
	}
	return sx.T("par", sx.Str(name), mk(typ), v, sx.Bool(capt))
}

func bnd(op string, maj, min, pat int64, pre, build string) sx.Sexp {
	return sx.T(op, sx.Int(maj), sx.Int(min), sx.Int(pat), sx.Str(pre), sx.Str(build))
}

func vrS(orig string, rs ...sx.Sexp) sx.Sexp {
	return sx.T("vr", append([]sx.Sexp{sx.Str(orig)}, rs...)...)
}

// uriOK: the string is what url.Parse(..).String() gives back (the model takes the string as the URL's String())
func uriOK(s string) bool {
	u, err := url.Parse(s)
	return err == nil && u.String() == s
}

var uriStrs = []string{"http://example.com/a", "http://example.com/b", "http://example.com/a?q=1", "file:///tmp/x", "", "a", "urn:x:y", "http://example.com/a#f",
	"//example.com/a", "http://EXAMPLE.com/a", "mailto:a@b.c", "http://u:p@example.com:8080/a/b?x=1&y=2"}

var preStrs = []string{"", "rc1", "0", "-0", "-5", "-05", "5", "rc1.2", "a.b", "x-y", "rc1.-5", "alpha", "9223372036854775807", "9223372036854775808", "-9223372036854775808", "--5", "1a"}
var buildStrs = []string{"", "b1", "b2", "007", "a.b", "-", "5"}
var badPreStrs = []string{"007", "a..b", ".", "a.", ".a", "a b", "a+b", "é", "01", "1.02", "_"}
var badBuildStrs = []string{"a..b", ".", "a+b", "a b", "_", "é"}

func randVer(r *rand.Rand) sx.Sexp {
	n := func() int64 { return []int64{0, 0, 1, 1, 2, 10, 255, math.MaxInt64}[r.Intn(8)] }
	pre, build := "", ""
	if r.Intn(2) == 0 {
		pre = preStrs[r.Intn(len(preStrs))]
	}
	if r.Intn(3) == 0 {
		build = buildStrs[r.Intn(len(buildStrs))]
	}
	return verS(n(), n(), n(), pre, build)
}

// rangeSpellings: a list of ranges and strings that parse to it ("" = no original string, built through the API).  Every
// row is checked against the implementation on every run (rangeOf).
type rangeRow struct {
	rs    []sx.Sexp
	origs []string
}

func rangeTable() []rangeRow {
	se := func(a, b sx.Sexp) sx.Sexp { return sx.T("se", a, b) }
	v := func(op string, maj, min, pat int64) sx.Sexp { return bnd(op, maj, min, pat, "", "") }
	return []rangeRow{
		{[]sx.Sexp{se(v("ge", 1, 0, 0), v("lt", 2, 0, 0))}, []string{"", "1.x", "1", "1.*", "1.X", ">=1.0.0 <2.0.0", "^1.0.0", "^1", ">=1.0.0  <2.0.0", "1.x.x", ">=1 <2", "<2.0.0 >=1.0.0"}},
		{[]sx.Sexp{se(v("ge", 1, 2, 0), v("lt", 1, 3, 0))}, []string{"", "1.2.x", "1.2", "~1.2.0", "~1.2", ">=1.2.0 <1.3.0", "~>1.2.0"}},
		{[]sx.Sexp{se(v("ge", 1, 2, 3), v("lt", 1, 3, 0))}, []string{"", "~1.2.3", ">=1.2.3 <1.3.0"}},
		{[]sx.Sexp{se(v("ge", 1, 2, 3), v("lt", 2, 0, 0))}, []string{"", "^1.2.3", ">=1.2.3 <2.0.0"}},
		{[]sx.Sexp{v("eq", 1, 2, 3)}, []string{"", "1.2.3", "=1.2.3"}},
		{[]sx.Sexp{v("eq", 1, 0, 0)}, []string{"", "1.0.0", "=1.0.0"}},
		{[]sx.Sexp{bnd("eq", 1, 0, 0, "rc1", "")}, []string{"", "1.0.0-rc1"}},
		{[]sx.Sexp{bnd("eq", 1, 0, 0, "", "b1")}, []string{"", "1.0.0+b1"}},
		{[]sx.Sexp{v("ge", 1, 0, 0)}, []string{"", ">=1.0.0", ">=1", ">=1.0"}},
		{[]sx.Sexp{v("ge", 2, 0, 0)}, []string{"", ">=2.0.0", ">1", "1.0.0 - 2.0.0"}}, // (the hyphen form: a quirk of the library's intersection)
		{[]sx.Sexp{v("lt", 3, 0, 0)}, []string{"", "<3.0.0", "<=2"}},
		{[]sx.Sexp{v("gt", 1, 0, 0)}, []string{"", ">1.0.0"}},
		{[]sx.Sexp{v("le", 2, 0, 0)}, []string{"", "<=2.0.0"}},
		{[]sx.Sexp{v("lt", 2, 0, 0)}, []string{"", "<2.0.0", "<2"}},
		{[]sx.Sexp{se(v("gt", 1, 0, 0), v("le", 2, 0, 0))}, []string{"", ">1.0.0 <=2.0.0", "<=2.0.0 >1.0.0"}},
		{[]sx.Sexp{se(v("ge", 1, 0, 0), v("le", 2, 0, 0))}, []string{"", ">=1.0.0 <=2.0.0"}},
		{[]sx.Sexp{v("eq", 1, 0, 0), v("eq", 3, 0, 0)}, []string{"", "1.0.0 || 3.0.0", "1.0.0||3.0.0"}},
		{[]sx.Sexp{v("eq", 3, 0, 0), v("eq", 1, 0, 0)}, []string{"", "3.0.0 || 1.0.0"}},
		{[]sx.Sexp{se(v("ge", 1, 0, 0), v("lt", 2, 0, 0)), v("eq", 3, 0, 0)}, []string{"", "1.x || 3.0.0", ">=1.0.0 <2.0.0 || 3.0.0"}},
		{[]sx.Sexp{se(v("ge", 1, 0, 0), v("lt", 2, 0, 0)), se(v("ge", 3, 0, 0), v("lt", 4, 0, 0))}, []string{"", "1.x || 3.x", "1 || 3"}},
	}
}

// rangeVals: the rows as values; a spelling the implementation does not parse to the stated ranges is dropped here (and
// counted: the generator must not lose its rows silently)
func rangeVals() (vals []sx.Sexp, dropped []string) {
	for _, row := range rangeTable() {
		for _, o := range row.origs {
			e := vrS(o, row.rs...)
			if err := safely(func() { rangeOf(e.Args()) }); err != nil {
				dropped = append(dropped, fmt.Sprintf("%q: %v", o, err))
				continue
			}
			vals = append(vals, e)
		}
	}
	return
}

// kindUniverse: the exhaustive small universe of the new kinds (every ordered pair; crossed with the core of the old one)
func kindUniverse() []sx.Sexp {
	u := []sx.Sexp{}
	for _, s := range uriStrs {
		if uriOK(s) {
			u = append(u, uriS(s))
		}
	}
	u = append(u,
		verS(1, 0, 0, "", ""), verS(1, 0, 1, "", ""), verS(1, 1, 0, "", ""), verS(2, 0, 0, "", ""), verS(0, 0, 0, "", ""), mk("(vmin)"),
		verS(1, 0, 0, "rc1", ""), verS(1, 0, 0, "", "b1"), verS(1, 0, 0, "", "b2"), verS(1, 0, 0, "rc1", "b1"),
		verS(1, 0, 0, "-5", ""), verS(1, 0, 0, "-05", ""), verS(1, 0, 0, "5", ""), verS(1, 0, 0, "0", ""), verS(1, 0, 0, "-0", ""),
		verS(1, 0, 0, "a.b", ""), verS(1, 0, 0, "a", "b"), verS(10, 0, 0, "", ""), verS(1, 0, 0, "", "007"), verS(1, 0, 0, "", "7"),
		verS(1, 0, 0, "9223372036854775808", ""), verS(math.MaxInt64, 0, 0, "", ""),
	)
	rv, _ := rangeVals()
	u = append(u, rv...)
	rt := "http://puppet.com/2016.1/runtime"
	u = append(u,
		tnS(rt, "type", "Foo"), tnS(rt, "type", "foo"), tnS(rt, "type", "::Foo"), tnS(rt, "type", "Foo::Bar"), tnS(rt, "function", "foo"),
		tnS("", "type", "foo"), tnS("a", "b/c", "d"), tnS("a/b", "c", "d"), tnS(rt, "type", "::::foo"), tnS(rt, "type", ""),
		dfS("f"), dfS("g"), dfS("f", iv(1)), dfS("f", iv(1), iv(2)), dfS("f", av(iv(1), iv(2))), dfS("f", sv("a")), dfS("$x"), dfS("f", dfS("g")),
		dfS("f", fv(0)), dfS("f", fv(negZero)), dfS("f", ent(iv(1), iv(2))), dfS("f", hv(sv("a"), iv(1), sv("b"), iv(2))), dfS("f", hv(sv("b"), iv(2), sv("a"), iv(1))),
	)
	one, und, nan := iv(1), mk("(u)"), fv(math.NaN())
	u = append(u,
		parS("p", "str", nil, false), parS("p", "str", &und, false), parS("p", "str", &one, false), parS("q", "str", nil, false),
		parS("p", "(int 1 2)", nil, false), parS("p", "str", nil, true), parS("p", "(var str (int 1 2))", nil, false), parS("p", "(var (int 1 2) str)", nil, false),
		parS("p", "str", &nan, false),
	)
	return u
}

// kindCore: members of the old universe every new value is crossed with
func kindCore() []sx.Sexp {
	return []sx.Sexp{mk("(u)"), iv(1), sv("a"), sv("1.0.0"), sv("http://example.com/a"), sv(">=1.0.0 <2.0.0"), av(), av(iv(1)), hv(), hv(sv("a"), iv(1)),
		ent(iv(1), iv(2)), sx.T("sens", iv(1)), tv("str"), fv(math.NaN()), sx.T("r", sx.Str("a")), sx.T("x", sx.Str("a"))}
}

func randKind(r *rand.Rand, depth int) sx.Sexp {
	if r.Intn(6) == 0 {
		return randObj(r, depth)
	}
	switch r.Intn(7) {
	case 0:
		for i := 0; i < 8; i++ {
			if s := uriStrs[r.Intn(len(uriStrs))]; uriOK(s) {
				return uriS(s)
			}
		}
		return uriS("")
	case 1, 2:
		return randVer(r)
	case 3:
		rv, _ := rangeVals()
		return rv[r.Intn(len(rv))]
	case 4:
		return tnS([]string{"", "http://puppet.com/2016.1/runtime", "http://X"}[r.Intn(3)], []string{"type", "function", "Type"}[r.Intn(3)],
			[]string{"Foo", "foo", "::Foo", "Foo::Bar", "foo::bar", "bar"}[r.Intn(6)])
	case 5:
		n := r.Intn(3)
		args := []sx.Sexp{}
		for i := 0; i < n; i++ {
			args = append(args, randVal(r, depth-1))
		}
		return dfS([]string{"f", "g", "$x"}[r.Intn(3)], args...)
	default:
		var v *sx.Sexp
		if r.Intn(2) == 0 {
			x := randVal(r, depth-1)
			v = &x
		}
		return parS([]string{"p", "q"}[r.Intn(2)], randType(r, 1), v, r.Intn(4) == 0)
	}
}

// mutateKind: a one-point mutation / a related value of another shape; ok=false when the tag is not a new kind
func mutateKind(r *rand.Rand, e sx.Sexp) (sx.Sexp, bool) {
	if m, ok := mutateObj(r, e); ok {
		return m, true
	}
	a := e.Args()
	switch e.Tag() {
	case "uri":
		s := a[0].MustStr()
		switch r.Intn(3) {
		case 0:
			return sv(s), true
		case 1:
			if uriOK(s + "x") {
				return uriS(s + "x"), true
			}
		}
		return av(e), true
	case "ver":
		xs := append([]sx.Sexp{}, a...)
		switch r.Intn(6) {
		case 0, 1, 2:
			i := r.Intn(3)
			xs[i] = sx.Int((a[i].MustInt() + 1) & math.MaxInt64)
		case 3:
			xs[3] = sx.Str(preStrs[r.Intn(len(preStrs))])
		case 4:
			xs[4] = sx.Str(buildStrs[r.Intn(len(buildStrs))])
		default:
			return sv(refVersion(a)), true
		}
		return sx.T("ver", xs...), true
	case "vmin":
		return verS(0, 0, 0, "", ""), true
	case "vr":
		rv, _ := rangeVals()
		switch r.Intn(3) {
		case 0: // another spelling of the same ranges (Equal, and one key since /repo 2f932dc)
			for i := 0; i < 20; i++ {
				if o := rv[r.Intn(len(rv))]; refNorm(o.Args()[1:]) == refNorm(a[1:]) {
					return o, true
				}
			}
		case 1:
			if a[0].MustStr() != "" {
				return sv(a[0].MustStr()), true
			}
			return sv(refNorm(a[1:])), true
		}
		return rv[r.Intn(len(rv))], true
	case "tn":
		auth, ns, name := a[0].MustStr(), a[1].MustStr(), a[2].MustStr()
		switch r.Intn(5) {
		case 0:
			return tnS(auth, ns, strings.ToUpper(name)), true // Equal: the map key is lower-cased
		case 1:
			return tnS(auth, ns, "::"+name), true // Equal: one leading :: is dropped
		case 2:
			return tnS(auth, ns, name+"x"), true
		case 3:
			return tnS(auth, "function", name), true
		}
		return tnS(auth+"/"+ns, name, ""), true
	case "df":
		name, args := a[0].MustStr(), a[1:]
		switch r.Intn(4) {
		case 0:
			return dfS(name+"x", args...), true
		case 1:
			return dfS(name, append(append([]sx.Sexp{}, args...), iv(1))...), true
		case 2:
			if len(args) > 0 {
				i := r.Intn(len(args))
				xs := append([]sx.Sexp{}, args...)
				xs[i] = mutate(r, xs[i])
				return dfS(name, xs...), true
			}
		}
		return sx.T("a", args...), true
	case "par":
		xs := append([]sx.Sexp{}, a...)
		switch r.Intn(5) {
		case 0:
			xs[0] = sx.Str(a[0].MustStr() + "x")
		case 1:
			xs[1] = mutType(r, a[1])
		case 2:
			if a[2].IsList {
				xs[2] = sx.A("n")
			} else {
				xs[2] = sx.T("v", mk("(u)")) // has a value, and it is undef: not Equal to the parameter without a value
			}
		case 3:
			xs[3] = sx.Bool(!a[3].MustBool())
		default:
			if a[2].IsList {
				xs[2] = sx.T("v", mutate(r, a[2].Args()[0]))
			} else {
				xs[1] = equalType(r, a[1])
			}
		}
		return sx.T("par", xs...), true
	}
	return sx.Sexp{}, false
}

// equalKind: another spelling of an Equal value of a new kind
func equalKind(r *rand.Rand, e sx.Sexp) (sx.Sexp, bool) {
	if m, ok := equalObj(r, e); ok {
		return m, true
	}
	a := e.Args()
	switch e.Tag() {
	case "tn":
		name := a[2].MustStr()
		if r.Intn(2) == 0 {
			name = strings.ToUpper(name)
		}
		if r.Intn(2) == 0 && !strings.HasPrefix(name, "::") {
			name = "::" + name
		}
		return tnS(a[0].MustStr(), a[1].MustStr(), name), true
	case "df":
		xs := []sx.Sexp{a[0]}
		for _, k := range a[1:] {
			xs = append(xs, equalVariant(r, k))
		}
		return sx.T("df", xs...), true
	case "par":
		xs := append([]sx.Sexp{}, a...)
		xs[1] = equalType(r, a[1])
		if a[2].IsList {
			xs[2] = sx.T("v", equalVariant(r, a[2].Args()[0]))
		}
		return sx.T("par", xs...), true
	case "ver":
		xs := append([]sx.Sexp{}, a...)
		switch a[3].MustStr() { // `-05` is read as the int -5, `-0` as the int 0
		case "-5":
			xs[3] = sx.Str("-05")
		case "0":
			xs[3] = sx.Str("-0")
		}
		return sx.T("ver", xs...), true
	}
	return sx.Sexp{}, false
}

var _ = strconv.Itoa
