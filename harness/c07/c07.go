// Package c07: equality is an equivalence relation and hash keys respect it (property C07).
//
// value syntax (twin of lean/Driver/C07.lean):
//   (u) undef   (d) default   (b t|f)   (i N)   (f BITS)  IEEE-754 bits, decimal   (s xHEX)  string bytes
//   (r xHEX) regexp source   (x xHEX) binary   (a v*) array   (h (k v)*) hash   (e k v) hash entry
//   (mh (k v)*) a MutableHashValue built by NewMutableHash + Put (printed back as the hash with its entries)
//   (ts NANOS) Timespan   (tm SECS NANOS) Timestamp (0 <= NANOS < 1e9)
//   (sens v) sensitive   (t T) a type as a value, T one of
//       (int lo hi)  (flt loBITS hiBITS)  str  any  undef  (enum ci xHEX*)  (arr T lo hi)  (var T*)  (tup (T*)) | (tup (T*) lo hi)
//       (opt T)  (typ T)
//
// ops (model + implementation):
//   eq x y       x.Equals(y) and y.Equals(x), each asked again after forcing the lazily cached parts of both
//                operands (PType, String, ToKey, the hash index)                        → "<xy> <yx>"
//   eq3 x y z    the three answers xy, yz, xz (transitivity)                             → "<xy> <yz> <xz>"
//   key x        hex of px.ToKey(x)                                                     → "x<hex>" | "reported INVALID_HASH_KEY"
//   get H k      H.Get(k)                                                               → "some <value>" | "none"
//   unique xs    Array.Unique                                                           → "(a v*)"
//   @teq s t / @teq3 s t u   implementation only: the same laws on types given as *type expressions* (hex strings parsed by
//                c.ParseType): every kind, in particular those that have no model counterpart (URI[..], Timespan / Timestamp
//                ranges, Object, TypeSet, Init with arguments …)
//   @vrcheck / @objcheck / @tstype / @refl   implementation only: see kinds.go, objects.go, execTimestampTypes, reflected.go
// More value kinds (uri ver vmin vr tn df par obj) and type kinds: kinds.go, objects.go, typekinds.go.
// The property predicate is evaluated directly on the implementation for every op (see `exec`).
package c07

import (
	"encoding/hex"
	"fmt"
	"math"
	"math/big"
	"math/rand"
	"strconv"
	"strings"
	"time"

	"verif/harness/core"
	"verif/harness/sx"

	"github.com/lyraproj/issue/issue"
	"github.com/lyraproj/pcore/px"
	"github.com/lyraproj/pcore/types"
)

func init() {
	core.Register(&core.Prop{
		ID:   "C07",
		Rule: "distinct op lines; non-trivial = at least one operand is a container, a type or a string/binary/regexp, or the answer is `equal`",
		Gen:  gen,
		Exec: exec,
	})
}

// ---- building values ---------------------------------------------------------------------------------------

func u64(s sx.Sexp) uint64 {
	u, err := strconv.ParseUint(s.Atom, 10, 64)
	if err != nil || s.IsList {
		panic(fmt.Errorf("bad u64 %s", s))
	}
	return u
}

func sizeOf(lo, hi sx.Sexp) *types.IntegerType {
	if lo.MustInt() > hi.MustInt() { // Integer[] rejects it; the driver answers bad-op for such a size too
		panic(badOp{"min > max"})
	}
	return types.NewIntegerType(lo.MustInt(), hi.MustInt())
}

func typeOf(e sx.Sexp) px.Type {
	if !e.IsList {
		switch e.Atom {
		case "str":
			return types.DefaultStringType()
		case "any":
			return types.DefaultAnyType()
		case "undef":
			return types.DefaultUndefType()
		}
		if t, ok := kindTypeOf(e); ok {
			return t
		}
		panic(fmt.Errorf("bad type %s", e))
	}
	a := e.Args()
	switch e.Tag() {
	case "int":
		return sizeOf(a[0], a[1])
	case "flt":
		return types.NewFloatType(math.Float64frombits(u64(a[0])), math.Float64frombits(u64(a[1])))
	case "enum":
		ss := []string{}
		for _, s := range a[1:] {
			ss = append(ss, s.MustStr())
		}
		return types.NewEnumType(ss, a[0].MustBool())
	case "arr":
		return types.NewArrayType(typeOf(a[0]), sizeOf(a[1], a[2]))
	case "var":
		ts := []px.Type{}
		for _, t := range a {
			ts = append(ts, typeOf(t))
		}
		return types.NewVariantType(ts...)
	case "tup":
		ts := []px.Type{}
		for _, t := range a[0].List {
			ts = append(ts, typeOf(t))
		}
		if len(a) == 1 {
			return types.NewTupleType(ts, nil)
		}
		return types.NewTupleType(ts, sizeOf(a[1], a[2]))
	case "opt":
		return types.NewOptionalType(typeOf(a[0]))
	case "typ":
		return types.NewTypeType(typeOf(a[0]))
	}
	if t, ok := kindTypeOf(e); ok {
		return t
	}
	panic(fmt.Errorf("bad type %s", e))
}

func valOf(e sx.Sexp) px.Value {
	a := e.Args()
	switch e.Tag() {
	case "u":
		return px.Undef
	case "d":
		return types.WrapDefault()
	case "b":
		return types.WrapBoolean(a[0].MustBool())
	case "i":
		return types.WrapInteger(a[0].MustInt())
	case "f":
		return types.WrapFloat(math.Float64frombits(u64(a[0])))
	case "s":
		return types.WrapString(a[0].MustStr())
	case "r":
		return types.WrapRegexp(a[0].MustStr())
	case "x":
		b, err := a[0].AsBytes()
		if err != nil {
			panic(err)
		}
		return types.WrapBinary(b)
	case "a":
		vs := make([]px.Value, 0, len(a))
		for _, k := range a {
			vs = append(vs, valOf(k))
		}
		return types.WrapValues(vs)
	case "h":
		es := make([]*types.HashEntry, 0, len(a))
		for _, kv := range a {
			if !kv.IsList || len(kv.List) != 2 {
				panic(fmt.Errorf("bad hash entry %s", kv))
			}
			es = append(es, types.WrapHashEntry(valOf(kv.List[0]), valOf(kv.List[1])))
		}
		return types.WrapHash(es)
	case "mh":
		m := types.NewMutableHash()
		for _, kv := range a {
			if !kv.IsList || len(kv.List) != 2 {
				panic(fmt.Errorf("bad hash entry %s", kv))
			}
			m.Put(valOf(kv.List[0]), valOf(kv.List[1]))
		}
		return m
	case "e":
		return types.WrapHashEntry(valOf(a[0]), valOf(a[1]))
	case "ts":
		return types.WrapTimespan(time.Duration(a[0].MustInt()))
	case "tm":
		return types.WrapTimestamp(time.Unix(a[0].MustInt(), a[1].MustInt()).UTC())
	case "sens":
		return types.WrapSensitive(valOf(a[0]))
	case "t":
		return typeOf(a[0])
	}
	if v, ok := kindValOf(e); ok {
		return v
	}
	panic(fmt.Errorf("bad value %s", e))
}

// ---- printing values back (canonical, the syntax above) -------------------------------------------------------

func typeStr(t px.Type) string {
	if s, ok := kindTypeStr(t); ok {
		return s
	}
	switch t := t.(type) {
	case *types.IntegerType:
		return fmt.Sprintf("(int %d %d)", t.Min(), t.Max())
	case *types.FloatType:
		return fmt.Sprintf("(flt %d %d)", math.Float64bits(t.Min()), math.Float64bits(t.Max()))
	case *types.EnumType:
		var sb strings.Builder
		sb.WriteString("(enum " + sx.B(t.IsCaseInsensitive()))
		ps := t.Parameters()
		for _, p := range ps {
			if s, ok := p.(px.StringValue); ok {
				sb.WriteString(" " + sx.Str(s.String()).Atom)
			}
		}
		sb.WriteString(")")
		return sb.String()
	case *types.ArrayType:
		sz := t.Size()
		return fmt.Sprintf("(arr %s %d %d)", typeStr(t.ElementType()), sz.Min(), sz.Max())
	case *types.VariantType:
		xs := []string{}
		for _, m := range t.Types() {
			xs = append(xs, " "+typeStr(m))
		}
		return "(var" + strings.Join(xs, "") + ")"
	case *types.TupleType:
		xs := []string{}
		for _, m := range t.Types() {
			xs = append(xs, typeStr(m))
		}
		r := "(tup (" + strings.Join(xs, " ") + ")"
		if st, ok := t.Get("size_type"); ok {
			if it, ok := st.(*types.IntegerType); ok && it != nil {
				r += fmt.Sprintf(" %d %d", it.Min(), it.Max())
			}
		}
		return r + ")"
	case *types.OptionalType:
		return "(opt " + typeStr(t.ContainedType()) + ")"
	case *types.TypeType:
		return "(typ " + typeStr(t.ContainedType()) + ")"
	case *types.AnyType:
		return "any"
	case *types.UndefType:
		return "undef"
	}
	if t.Equals(types.DefaultStringType(), nil) {
		return "str"
	}
	return "?" + t.String()
}

// asHash: a Hash, or the Hash inside a MutableHashValue
func asHash(v px.Value) (*types.Hash, bool) {
	switch v := v.(type) {
	case *types.Hash:
		return v, true
	case *types.MutableHashValue:
		return &v.Hash, true
	}
	return nil, false
}

func valStr(v px.Value) string {
	if m, ok := v.(*types.MutableHashValue); ok {
		v = &m.Hash
	}
	if s, ok := kindValStr(v); ok {
		return s
	}
	switch v := v.(type) {
	case *types.UndefValue:
		return "(u)"
	case *types.DefaultValue:
		return "(d)"
	case px.Boolean:
		return "(b " + sx.B(v.Bool()) + ")"
	case px.Integer:
		return fmt.Sprintf("(i %d)", v.Int())
	case px.Float:
		return fmt.Sprintf("(f %d)", math.Float64bits(v.Float()))
	case px.StringValue:
		return "(s " + sx.Str(v.String()).Atom + ")"
	case *types.Regexp:
		return "(r " + sx.Str(v.PatternString()).Atom + ")"
	case *types.Binary:
		return "(x " + sx.Bytes(v.Bytes()).Atom + ")"
	case *types.Array:
		xs := []string{}
		v.Each(func(e px.Value) { xs = append(xs, " "+valStr(e)) })
		return "(a" + strings.Join(xs, "") + ")"
	case *types.Hash:
		xs := []string{}
		v.EachPair(func(k, e px.Value) { xs = append(xs, " ("+valStr(k)+" "+valStr(e)+")") })
		return "(h" + strings.Join(xs, "") + ")"
	case *types.HashEntry:
		return "(e " + valStr(v.Key()) + " " + valStr(v.Value()) + ")"
	case *types.Sensitive:
		return "(sens " + valStr(v.Unwrap()) + ")"
	case types.Timespan:
		return fmt.Sprintf("(ts %d)", int64(v.Duration()))
	case *types.Timestamp:
		return fmt.Sprintf("(tm %d %d)", v.Time().Unix(), v.Time().Nanosecond())
	case *types.UriValue:
		return "(uri " + sx.Str(v.URL().String()).Atom + ")"
	case px.Type:
		return "(t " + typeStr(v) + ")"
	}
	return "?" + v.String()
}

// ---- calling into pcore ------------------------------------------------------------------------------------

func safely(f func()) (err interface{}) {
	defer func() { err = recover() }()
	f()
	return nil
}

func errClass(e interface{}) string {
	if r, ok := e.(issue.Reported); ok {
		if strings.Contains(r.Error(), "runtime error:") {
			return "fault"
		}
		return "reported " + string(r.Code())
	}
	return "fault"
}

// equals asks a.Equals(b); a runtime fault is an observation ("fault"), never swallowed
func equals(a, b px.Value) string {
	r := "fault"
	if err := safely(func() { r = sx.B(a.Equals(b, nil)) }); err != nil {
		return errClass(err)
	}
	return r
}

// keyErr: the INVALID_MAP_KEY report is built from the PType() of the value that has no key, and inferring that type can itself
// raise a reported error (a Like type does not resolve: UNRESOLVED_TYPE_OF; an Init type looks for a constructor:
// CTOR_NOT_FOUND; …) at the very same point.  For operands that have no key every REPORTED error there is one observation
// (a runtime fault is not: it stays `fault`).
func keyErr(class string, vs ...px.Value) string {
	if strings.HasPrefix(class, "reported ") && class != "reported PCORE_INVALID_MAP_KEY" {
		for _, v := range vs {
			if !keyableVal(v) {
				return "reported PCORE_INVALID_MAP_KEY"
			}
		}
	}
	return class
}

// key: px.ToKey, ok=false when it reports INVALID_HASH_KEY (Sensitive …)
func keyOf(v px.Value) (k string, out string) {
	if err := safely(func() { k = string(px.ToKey(v)) }); err != nil {
		return "", keyErr(errClass(err), v)
	}
	return k, "x" + hex.EncodeToString([]byte(k))
}

// force touches everything a value computes lazily and caches
func force(v px.Value) {
	_ = safely(func() { _ = v.PType() })
	_ = safely(func() { _ = px.DetailedValueType(v) })
	_ = safely(func() { _ = px.ToKey(v) })
	forceKind(v)
	if h, ok := asHash(v); ok {
		v = h
	}
	switch v := v.(type) {
	case *types.Hash:
		_ = safely(func() { v.IncludesKey(px.Undef) })
		v.EachPair(func(k, e px.Value) { force(k); force(e) })
	case *types.Array:
		v.Each(force)
	}
}

// use makes v the RECEIVER and the ARGUMENT of the collection operations that do not change it (they read, and may fill or
// share, its hidden index / backing storage): merging, adding, deleting, selecting, slicing.  None of them may change what v
// equals, finds or is keyed by afterwards ("equality does not depend on hidden state").  MutableHashValue operands are left
// alone: Put/PutAll change them by contract.
func use(v, other px.Value) {
	switch v := v.(type) {
	case *types.Hash:
		var k0 px.Value
		v.EachPair(func(k, _ px.Value) {
			if k0 == nil {
				k0 = k
			}
		})
		if o, ok := other.(*types.Hash); ok {
			_ = safely(func() { v.Merge(o) })
			_ = safely(func() { v.AddAll(o) })
			_ = safely(func() { v.DeleteAll(o.Keys()) })
		}
		if o, ok := other.(*types.Array); ok {
			_ = safely(func() { v.DeleteAll(o) })
		}
		_ = safely(func() { v.Merge(types.WrapHash([]*types.HashEntry{types.WrapHashEntry2("\x00use", other)})) })
		_ = safely(func() { v.Delete(other) })
		if k0 != nil {
			_ = safely(func() { v.Delete(k0) })
			_ = safely(func() { v.Merge(types.WrapHash([]*types.HashEntry{types.WrapHashEntry(k0, other)})) })
		}
		_ = safely(func() { v.Select(func(px.Value) bool { return true }) })
		_ = safely(func() { v.Reject(func(px.Value) bool { return true }) })
		_ = safely(func() { v.Keys(); v.Values(); v.Slice(0, v.Len()/2) })
		_ = safely(func() { v.Get(other) })
		v.EachPair(func(k, e px.Value) { use(k, other); use(e, other) })
	case *types.Array:
		_ = safely(func() { v.Add(other) })
		if o, ok := other.(*types.Array); ok {
			_ = safely(func() { v.AddAll(o) })
			_ = safely(func() { v.DeleteAll(o) })
		}
		_ = safely(func() { v.Delete(other) })
		_ = safely(func() { v.Slice(0, v.Len()/2).Add(other) })
		_ = safely(func() { v.Unique(); v.Flatten() })
		_ = safely(func() { v.Select(func(px.Value) bool { return true }).Add(other) })
		v.Each(func(e px.Value) { use(e, other) })
	}
}

// hashKeysKeyable: no key of any hash inside the tree contains a Sensitive.  Otherwise building a hash index panics with
// INVALID_MAP_KEY at a point that depends on Go's map iteration order; such operands print `unkeyable` on both sides.
func hashKeysKeyable(e sx.Sexp) bool {
	if e.Tag() == "h" || e.Tag() == "mh" {
		for _, kv := range e.Args() {
			if !noSens(kv.List[0]) {
				return false
			}
		}
	}
	for _, k := range e.List {
		if k.IsList && !hashKeysKeyable(k) {
			return false
		}
	}
	return true
}

func noSens(e sx.Sexp) bool {
	if noKeyTag(e.Tag()) { // a Sensitive, or a kind that has no ToKey either (TypedName, Deferred, Parameter)
		return false
	}
	for _, k := range e.List {
		if k.IsList && !noSens(k) {
			return false
		}
	}
	return true
}

// ---- classification helpers ------------------------------------------------------------------------------------

// comparable: the value contains no NaN and no Sensitive (the property's stated exceptions)
func comparable(e sx.Sexp) bool {
	switch e.Tag() {
	case "f":
		f := math.Float64frombits(u64(e.Args()[0]))
		return f == f
	case "sens":
		return false
	case "t":
		return true
	}
	for _, k := range e.List { // (also the untagged (k v) pairs of a hash)
		if k.IsList && !comparable(k) {
			return false
		}
	}
	return true
}

// dupKeys: some hash in the tree holds two keys that are Equal (not a well-formed Hash: C09's subject)
func dupKeys(v px.Value) bool {
	if h, ok := asHash(v); ok {
		v = h
	}
	switch v := v.(type) {
	case *types.Hash:
		ks := []px.Value{}
		dup := false
		v.EachPair(func(k, e px.Value) {
			for _, o := range ks {
				if equals(o, k) == "t" || equals(k, o) == "t" {
					dup = true
				}
			}
			ks = append(ks, k)
			if dupKeys(k) || dupKeys(e) {
				dup = true
			}
		})
		return dup
	case *types.Array:
		dup := false
		v.Each(func(e px.Value) {
			if dupKeys(e) {
				dup = true
			}
		})
		return dup
	case *types.HashEntry:
		return dupKeys(v.Key()) || dupKeys(v.Value())
	}
	return false
}

// topCollide: one of the two is a string, the other is not, and the string's bytes are exactly the other's key — the
// collision that remains on purpose (a top-level string is keyed by its raw bytes because Hash.Get4 addresses entries
// by the raw string): known finding C07-raw-string-key
func topCollide(a, b px.Value) bool {
	sa, aStr := a.(px.StringValue)
	sb, bStr := b.(px.StringValue)
	if aStr == bStr {
		return false
	}
	if bStr {
		sa, b = sb, a
	}
	k, out := keyOf(b)
	return strings.HasPrefix(out, "x") && k == sa.String()
}

// hashKeyCollision: some hash in the tree holds two keys that collide in that way (its index then has one slot for both)
func hashKeyCollision(v px.Value) bool {
	found := false
	if h, ok := asHash(v); ok {
		v = h
	}
	switch v := v.(type) {
	case *types.Hash:
		ks := []px.Value{}
		v.EachPair(func(k, e px.Value) {
			for _, o := range ks {
				if topCollide(o, k) {
					found = true
				}
			}
			ks = append(ks, k)
			if hashKeyCollision(k) || hashKeyCollision(e) {
				found = true
			}
		})
	case *types.Array:
		v.Each(func(e px.Value) {
			if hashKeyCollision(e) {
				found = true
			}
		})
	case *types.HashEntry:
		return hashKeyCollision(v.Key()) || hashKeyCollision(v.Value())
	}
	return found
}

func anyHashKeyCollision(vs ...px.Value) bool {
	for _, v := range vs {
		if hashKeyCollision(v) {
			return true
		}
	}
	return false
}

// typeSexps: the type expressions that occur as values in the tree
func typeSexps(e sx.Sexp, out *[]sx.Sexp) {
	if e.Tag() == "t" {
		*out = append(*out, e.Args()[0])
		return
	}
	for _, k := range e.List {
		if k.IsList {
			typeSexps(k, out)
		}
	}
}

// canonType: the type expression with everything `Equals` does not look at normalised away: the members of a Variant /
// the values of an Enum as a sorted set plus their number, the implied size of a Tuple written out, a one-member
// Variant replaced by the member
func canonType(e sx.Sexp) sx.Sexp {
	if !e.IsList {
		return e
	}
	xs := make([]sx.Sexp, len(e.List))
	for i, k := range e.List {
		xs[i] = canonType(k)
	}
	from := -1
	switch e.Tag() {
	case "var":
		if len(xs) == 2 {
			return xs[1]
		}
		from = 1
	case "pat":
		from = 1
	case "enum":
		from = 2
		if len(xs) == 2 {
			xs[1] = sx.A("f") // NewEnumType: no values → the default Enum
		}
	case "tup":
		if len(xs) == 2 {
			n := sx.Int(int64(len(xs[1].List)))
			xs = append(xs, n, n)
		}
	}
	if from > 0 && len(xs) > from {
		rest := xs[from:]
		for i := 1; i < len(rest); i++ {
			for j := i; j > 0 && rest[j-1].String() > rest[j].String(); j-- {
				rest[j-1], rest[j] = rest[j], rest[j-1]
			}
		}
		uniq := append([]sx.Sexp{}, xs[:from]...)
		for i, m := range rest {
			if i == 0 || m.String() != rest[i-1].String() {
				uniq = append(uniq, m)
			}
		}
		xs = append(uniq, sx.A(fmt.Sprintf("#%d", len(rest))))
	}
	return sx.Sexp{List: xs, IsList: true}
}

// memberOrder: among the operands there are two types that are the same up to the order / repetition of Variant members
// or Enum values and yet have different keys — the negation of the theorem hypothesis `TypeKeysAgree` restricted to its
// known cause (known finding C07-type-member-order)
func memberOrder(es ...sx.Sexp) bool {
	var ts []sx.Sexp
	for _, e := range es {
		typeSexps(e, &ts)
	}
	for i := range ts {
		for j := i + 1; j < len(ts); j++ {
			if ts[i].String() == ts[j].String() || canonType(ts[i]).String() != canonType(ts[j]).String() {
				continue
			}
			ki, oi := keyOf(typeOf(ts[i]))
			kj, oj := keyOf(typeOf(ts[j]))
			if strings.HasPrefix(oi, "x") && strings.HasPrefix(oj, "x") && ki != kj {
				return true
			}
		}
	}
	return false
}

func hasType(e sx.Sexp) bool {
	if e.Tag() == "t" {
		return true
	}
	for _, k := range e.List {
		if k.IsList && hasType(k) {
			return true
		}
	}
	return false
}

func tagsOf(es ...sx.Sexp) []string {
	seen := map[string]bool{}
	out := []string{}
	for _, e := range es {
		t := "k:" + e.Tag()
		if !seen[t] {
			seen[t] = true
			out = append(out, t)
		}
	}
	return out
}

func interesting(es ...sx.Sexp) bool {
	for _, e := range es {
		switch e.Tag() {
		case "a", "h", "mh", "e", "t", "s", "x", "r", "sens", "uri", "ver", "vmin", "vr", "tn", "df", "par", "obj":
			return true
		}
	}
	return false
}

// pairFail classifies a violated law on the pair (x,y)
func pairFail(out, law, detail string, ex, ey sx.Sexp, x, y px.Value) core.Result {
	class := law
	switch {
	case law == "key-equal-for-unequal" && topCollide(x, y), anyHashKeyCollision(x, y):
		class = "raw-string-key"
	case law == "key-differs-for-equal" && memberOrder(ex, ey):
		class = "type-member-order"
	case law == "key-differs-for-equal" && callablePair(ex, ey):
		class = "callable-all-equal"
	case law == "key-differs-for-equal" && rangeOriginal(ex, ey):
		class = "range-original-key"
	}
	return core.Fail(out, class, law+": "+detail)
}

// ---- ops ---------------------------------------------------------------------------------------------------

func exec(c px.Context, op string, args []sx.Sexp) (res core.Result) {
	defer func() {
		if e := recover(); e != nil {
			switch e := e.(type) {
			case badOp: // an operand that the constructors reject (semver.NewVersion3 error): `bad-op` on both sides
				res = core.Result{Out: "bad-op", Pred: "n/a", NonTrivial: true, Tags: []string{"bad-operand"}}
			case rangeMismatch: // the op line states ranges the implementation does not parse its string to: a generator bug
				res = core.Fail("bad-op", "harness-range-mismatch", e.why)
			case objectMismatch: // the op line states a type descriptor / attribute defaults that are not the implementation's
				res = core.Fail("bad-op", "harness-object-mismatch", e.why)
			default:
				panic(e)
			}
		}
	}()
	return exec1(c, op, args)
}

func exec1(c px.Context, op string, args []sx.Sexp) core.Result {
	switch op { // the implementation-only twins run the very same predicates
	case "veq", "veq3", "vkey", "vget", "vunique":
		op = op[1:]
	}
	switch op {
	case "eq":
		ex, ey := args[0], args[1]
		x, y := valOf(ex), valOf(ey)
		xy, yx := equals(x, y), equals(y, x)
		out := xy + " " + yx
		if !hashKeysKeyable(ex) || !hashKeysKeyable(ey) {
			if xy == "fault" || yx == "fault" {
				return core.Fail("unkeyable", "equals-fault", "Equals faulted: "+out)
			}
			return core.Result{Out: "unkeyable", Pred: "n/a", NonTrivial: true, Tags: []string{"eq:unkeyable"}}
		}
		res := core.Result{Out: out, Pred: "ok", NonTrivial: interesting(ex, ey) || xy == "t", Tags: append(tagsOf(ex, ey), "eq:"+xy)}
		// hidden state: the same questions after forcing every cache, and against separately built copies
		force(x)
		force(y)
		if xy2, yx2 := equals(x, y), equals(y, x); xy2 != xy || yx2 != yx {
			return pairFail(out, "state-dependent", fmt.Sprintf("before forcing caches %s %s, after %s %s", xy, yx, xy2, yx2), ex, ey, x, y)
		}
		if xy3 := equals(valOf(ex), y); xy3 != xy {
			return pairFail(out, "state-dependent", "a freshly built left operand answers "+xy3+" against a forced right operand, was "+xy, ex, ey, x, y)
		}
		// ... and after each operand has been the receiver and the argument of the non-mutating collection operations
		kx0, _ := keyOf(x)
		ky0, _ := keyOf(y)
		use(x, y)
		use(y, x)
		if xy4, yx4 := equals(x, y), equals(y, x); xy4 != xy || yx4 != yx {
			return pairFail(out, "state-dependent", fmt.Sprintf("before the operands were used in Merge/Add/Delete/Select/Slice %s %s, after %s %s", xy, yx, xy4, yx4), ex, ey, x, y)
		}
		if xc, yc := equals(x, valOf(ex)), equals(y, valOf(ey)); (xc != "t" && equals(valOf(ex), valOf(ex)) == "t") || (yc != "t" && equals(valOf(ey), valOf(ey)) == "t") {
			return pairFail(out, "state-dependent", "an operand no longer equals a fresh copy of itself after being used in Merge/Add/Delete/Select/Slice: "+xc+" "+yc, ex, ey, x, y)
		}
		if kx4, _ := keyOf(x); kx4 != kx0 {
			return pairFail(out, "state-dependent", "the key of the left operand changed after it was used in Merge/Add/Delete/Select/Slice", ex, ey, x, y)
		}
		if ky4, _ := keyOf(y); ky4 != ky0 {
			return pairFail(out, "state-dependent", "the key of the right operand changed after it was used in Merge/Add/Delete/Select/Slice", ex, ey, x, y)
		}
		if xy == "fault" || yx == "fault" {
			return pairFail(out, "equals-fault", "Equals faulted", ex, ey, x, y)
		}
		if !comparable(ex) || !comparable(ey) {
			res.Pred = "n/a"
			return res
		}
		if dupKeys(x) || dupKeys(y) {
			res.Pred = "n/a"
			res.Tags = append(res.Tags, "dup-keys")
			return res
		}
		if xy != yx {
			return pairFail(out, "asymmetric", "x.Equals(y)="+xy+" y.Equals(x)="+yx, ex, ey, x, y)
		}
		for _, p := range []struct {
			e sx.Sexp
			v px.Value
		}{{ex, x}, {ey, y}} {
			if r := equals(p.v, p.v); r != "t" {
				return pairFail(out, "irreflexive", "v.Equals(v)="+r+" for "+p.e.String(), ex, ey, x, y)
			}
			if r := equals(p.v, valOf(p.e)); r != "t" {
				return pairFail(out, "copy-unequal", "v.Equals(copy of v)="+r+" for "+p.e.String(), ex, ey, x, y)
			}
		}
		kx, okx := keyOf(x)
		ky, oky := keyOf(y)
		if !keyableVal(x) || !keyableVal(y) {
			// a TypedName, Deferred or Parameter (or a container of one) has no hash key at all: px.ToKey must report
			// INVALID_MAP_KEY for it, and only the equivalence laws above apply
			for _, p := range []struct {
				e sx.Sexp
				v px.Value
				o string
			}{{ex, x, okx}, {ey, y, oky}} {
				if !keyableVal(p.v) && p.o != "reported PCORE_INVALID_MAP_KEY" {
					return pairFail(out, "key-of-unkeyable", "ToKey of "+p.e.String()+": "+p.o, ex, ey, x, y)
				}
			}
			res.Tags = append(res.Tags, "no-key-kind")
			return res
		}
		if !strings.HasPrefix(okx, "x") || !strings.HasPrefix(oky, "x") {
			return pairFail(out, "key-fault", "ToKey of a comparable value: "+okx+" / "+oky, ex, ey, x, y)
		}
		if (kx == ky) && xy != "t" {
			return pairFail(out, "key-equal-for-unequal", "same key "+okx+" but Equals="+xy, ex, ey, x, y)
		}
		if (kx != ky) && xy == "t" {
			return pairFail(out, "key-differs-for-equal", "Equals but keys "+okx+" / "+oky, ex, ey, x, y)
		}
		return res
	case "eq3":
		ex, ey, ez := args[0], args[1], args[2]
		x, y, z := valOf(ex), valOf(ey), valOf(ez)
		xy, yz, xz := equals(x, y), equals(y, z), equals(x, z)
		out := xy + " " + yz + " " + xz
		if !hashKeysKeyable(ex) || !hashKeysKeyable(ey) || !hashKeysKeyable(ez) {
			if xy == "fault" || yz == "fault" || xz == "fault" {
				return core.Fail("unkeyable", "equals-fault", "Equals faulted: "+out)
			}
			return core.Result{Out: "unkeyable", Pred: "n/a", NonTrivial: true, Tags: []string{"eq3:unkeyable"}}
		}
		if xy == "fault" || yz == "fault" || xz == "fault" {
			return core.Fail(out, "equals-fault", "Equals faulted")
		}
		res := core.Result{Out: out, Pred: "ok", NonTrivial: xy == "t" || yz == "t", Tags: []string{"eq3:" + xy + yz + xz}}
		if dupKeys(x) || dupKeys(y) || dupKeys(z) {
			res.Pred = "n/a"
			return res
		}
		if xy == "t" && yz == "t" && xz != "t" {
			class := "intransitive"
			if anyHashKeyCollision(x, y, z) {
				class = "raw-string-key"
			}
			return core.Fail(out, class, "x=y and y=z but x.Equals(z)="+xz)
		}
		return res
	case "key":
		v := valOf(args[0])
		_, out := keyOf(v)
		res := core.Result{Out: out, Pred: "ok", NonTrivial: interesting(args[0]), Tags: tagsOf(args[0])}
		force(v)
		if _, out2 := keyOf(v); out2 != out {
			return core.Fail(out, "state-dependent", "key after forcing caches "+out2)
		}
		if _, out3 := keyOf(valOf(args[0])); out3 != out {
			return core.Fail(out, "state-dependent", "key of a separately built copy "+out3)
		}
		if comparable(args[0]) && keyableVal(v) && !strings.HasPrefix(out, "x") {
			return core.Fail(out, "key-fault", "ToKey of a comparable value: "+out)
		}
		if !keyableVal(v) && out != "reported PCORE_INVALID_MAP_KEY" {
			return core.Fail(out, "key-of-unkeyable", "ToKey of a value without a hash key: "+out)
		}
		return res
	case "get":
		hv := valOf(args[0])
		h, ok := asHash(hv)
		if !ok {
			return core.Result{Out: "bad-op", Pred: "n/a"}
		}
		k := valOf(args[1])
		var got px.Value
		var found bool
		if err := safely(func() { got, found = h.Get(k) }); err != nil {
			out := keyErr(errClass(err), k, hv)
			if comparable(args[0]) && comparable(args[1]) && keyableVal(hv) && keyableVal(k) {
				return core.Fail(out, "get-fault", "Hash.Get of a comparable key")
			}
			return core.Result{Out: out, Pred: "n/a", NonTrivial: true, Tags: []string{"get:fault"}}
		}
		out := "none"
		if found {
			out = "some " + valStr(got)
		}
		res := core.Result{Out: out, Pred: "ok", NonTrivial: true, Tags: []string{"get:" + sx.B(found)}}
		if inc := h.IncludesKey(k); inc != found {
			return core.Fail(out, "includes-differs", "IncludesKey="+sx.B(inc))
		}
		if !comparable(args[0]) || !comparable(args[1]) || dupKeys(h) || dupKeys(k) {
			res.Pred = "n/a"
			return res
		}
		// finds ⇔ an equal key is present, and then the value of that entry
		var want px.Value
		h.EachPair(func(ek, ev px.Value) {
			if equals(ek, k) == "t" || equals(k, ek) == "t" {
				want = ev
			}
		})
		fail := ""
		switch {
		case found && want == nil:
			fail = "found although no key of the hash is equal to the argument"
		case !found && want != nil:
			fail = "not found although the hash holds an equal key"
		case found && want != got && equals(want, got) != "t":
			fail = "found the value of another entry"
		}
		if fail != "" {
			class := "get-wrong"
			raw := anyHashKeyCollision(h, k)
			order := memberOrder(args[0], args[1])
			h.EachPair(func(ek, ev px.Value) {
				if topCollide(ek, k) {
					raw = true
				}
			})
			if raw {
				class = "raw-string-key"
			} else if order && !found {
				class = "type-member-order"
			} else if !found && callablePair(args[0], args[1]) {
				class = "callable-all-equal"
			} else if !found && rangeOriginal(args[0], args[1]) {
				class = "range-original-key"
			}
			return core.Fail(out, class, fail)
		}
		return res
	case "unique":
		av := valOf(args[0])
		a, ok := av.(*types.Array)
		if !ok {
			return core.Result{Out: "bad-op", Pred: "n/a"}
		}
		var u px.List
		if err := safely(func() { u = a.Unique() }); err != nil {
			out := keyErr(errClass(err), av)
			if comparable(args[0]) && keyableVal(av) {
				return core.Fail(out, "unique-fault", "Unique over comparable values")
			}
			return core.Result{Out: out, Pred: "n/a", NonTrivial: true, Tags: []string{"unique:fault"}}
		}
		out := valStr(u)
		res := core.Result{Out: out, Pred: "ok", NonTrivial: a.Len() > 1, Tags: []string{fmt.Sprintf("unique:%d>%d", a.Len(), u.Len())}}
		if !comparable(args[0]) || dupKeys(a) {
			res.Pred = "n/a"
			return res
		}
		fail := ""
		// survivors are pairwise unequal
		for i := 0; i < u.Len() && fail == ""; i++ {
			for j := i + 1; j < u.Len(); j++ {
				if equals(u.At(i), u.At(j)) == "t" || equals(u.At(j), u.At(i)) == "t" {
					fail = fmt.Sprintf("kept apart: survivors %d and %d are equal", i, j)
					break
				}
			}
		}
		// every input is equal to a survivor, and the survivors are a sub-sequence of the input (first occurrences)
		pos := 0
		for i := 0; i < a.Len() && fail == ""; i++ {
			e := a.At(i)
			has := false
			for j := 0; j < u.Len(); j++ {
				if equals(u.At(j), e) == "t" {
					has = true
				}
			}
			if !has {
				fail = fmt.Sprintf("merged: input %d is not equal to any survivor", i)
			}
			if pos < u.Len() && valStr(u.At(pos)) == valStr(e) {
				pos++
			}
		}
		if fail == "" && pos != u.Len() {
			fail = "survivors are not a sub-sequence of the input"
		}
		if fail != "" {
			class := "unique-wrong"
			vs := []px.Value{}
			a.Each(func(e px.Value) { vs = append(vs, e) })
			raw := anyHashKeyCollision(vs...)
			for i := range vs {
				for j := range vs {
					if topCollide(vs[i], vs[j]) {
						raw = true
					}
				}
			}
			if raw {
				class = "raw-string-key"
			} else if memberOrder(args[0]) && strings.HasPrefix(fail, "kept apart") {
				class = "type-member-order"
			} else if callablePair(args[0]) && strings.HasPrefix(fail, "kept apart") {
				class = "callable-all-equal"
			} else if rangeOriginal(args[0]) && strings.HasPrefix(fail, "kept apart") {
				class = "range-original-key"
			}
			return core.Fail(out, class, fail)
		}
		return res
	case "teq", "teq3":
		return execTypes(c, op, args)
	case "refl": // implementation only: reflected objects of three Go struct types
		return execReflected(c, args)
	case "tstype": // implementation only: Timestamp TYPES built through the API with bounds in given time zones (SECS NANOS OFFA OFFB)
		return execTimestampTypes(args)
	case "objcheck": // implementation only: objectType.Equals on catalogue types = equality of their descriptors
		if why, ok := objCheck(c); !ok {
			return core.Fail("mismatch", "harness-object-mismatch", why)
		}
		return core.Result{Out: "ok", Pred: "ok", NonTrivial: true, Tags: []string{"objcheck"}}
	case "vrcheck": // implementation only: the stated ranges are what the string parses to (rangeOf panics otherwise)
		rangeOf(args)
		return core.Result{Out: "ok", Pred: "ok", NonTrivial: true, Tags: []string{"vrcheck"}}
	}
	return core.Result{Out: "bad-op", Pred: "FAIL harness-bad-op " + op}
}

// execTypes: the equivalence and key laws on parsed type expressions (no model counterpart)
func execTypes(c px.Context, op string, args []sx.Sexp) core.Result {
	ts := make([]px.Type, len(args))
	cp := make([]px.Type, len(args))
	for i, a := range args {
		src := a.MustStr()
		if err := safely(func() { ts[i] = c.ParseType(src); cp[i] = c.ParseType(src) }); err != nil {
			return core.Result{Out: "unparsable", Pred: "n/a"}
		}
	}
	if op == "teq3" {
		xy, yz, xz := equals(ts[0], ts[1]), equals(ts[1], ts[2]), equals(ts[0], ts[2])
		out := xy + " " + yz + " " + xz
		if xy == "t" && yz == "t" && xz != "t" {
			return core.Fail(out, "types-intransitive", "x=y and y=z but x.Equals(z)="+xz)
		}
		return core.Result{Out: out, Pred: "ok", NonTrivial: xy == "t" || yz == "t", Tags: []string{"teq3:" + xy + yz + xz}}
	}
	x, y := ts[0], ts[1]
	xy, yx := equals(x, y), equals(y, x)
	out := xy + " " + yx
	res := core.Result{Out: out, Pred: "ok", NonTrivial: true, Tags: []string{"teq:" + xy}}
	if xy == "fault" || yx == "fault" {
		return core.Fail(out, "types-equals-fault", "Equals faulted")
	}
	if xy != yx {
		return core.Fail(out, "types-asymmetric", "x.Equals(y)="+xy+" y.Equals(x)="+yx)
	}
	for i, v := range []px.Type{x, y} {
		if r := equals(v, v); r != "t" {
			return core.Fail(out, "types-irreflexive", "t.Equals(t)="+r+" for "+args[i].MustStr())
		}
		if r := equals(v, cp[i]); r != "t" {
			return core.Fail(out, "types-copy-unequal", "t.Equals(re-parsed t)="+r+" for "+args[i].MustStr())
		}
		k1, o1 := keyOf(v)
		k2, o2 := keyOf(cp[i])
		if !strings.HasPrefix(o1, "x") || !strings.HasPrefix(o2, "x") {
			return core.Fail(out, "types-key-fault", "ToKey: "+o1+" for "+args[i].MustStr())
		}
		if k1 != k2 {
			class := "types-copy-key-differs"
			if _, ok := v.(px.ObjectType); ok {
				class = "object-type-identity-key" // objectType.ToKey is a per-instance counter
			}
			return core.Fail(out, class, "the re-parsed copy of "+args[i].MustStr()+" has another key")
		}
	}
	kx, okx := keyOf(x)
	ky, _ := keyOf(y)
	if kx == ky && xy != "t" {
		return core.Fail(out, "types-key-equal-for-unequal", "same key "+okx+" but Equals="+xy)
	}
	if kx != ky && xy == "t" {
		class := "types-key-differs-for-equal"
		both := args[0].MustStr() + args[1].MustStr()
		_, cx := x.(*types.CallableType)
		_, cy := y.(*types.CallableType)
		_, ux := x.(*types.UriType)
		_, uy := y.(*types.UriType)
		if ux && uy {
			class = "uri-type-param-order" // UriType.Equals compares the parts as a Hash (any order), the key lists them in the order given
		} else if cx && cy {
			class = "callable-all-equal" // CallableType.Equals answers true for any two Callable types
		} else if strings.Contains(both, "Variant") || strings.Contains(both, "Enum") || strings.Contains(both, "Pattern") {
			class = "type-member-order"
		}
		return core.Fail(out, class, "Equals but the keys differ")
	}
	return res
}

// execTimestampTypes: the laws on two Timestamp types whose lower bound is the SAME instant written in two time zones (reachable
// through types.NewTimestampType only).  TimestampType.Equals compares instants, Parameters() prints the bound with its zone: known
// finding C07-timestamp-type-zone-key (class computed from the mechanism: Equal, keys differ, and the two zones differ)
func execTimestampTypes(args []sx.Sexp) core.Result {
	secs, nanos, offA, offB := args[0].MustInt(), args[1].MustInt(), int(args[2].MustInt()), int(args[3].MustInt())
	zone := func(off int) *time.Location {
		if off == 0 {
			return time.UTC
		}
		return time.FixedZone(fmt.Sprintf("z%d", off), off)
	}
	mkT := func(off int) px.Type { return types.NewTimestampType(time.Unix(secs, nanos).In(zone(off)), types.MaxTime) }
	x, y := mkT(offA), mkT(offB)
	xy, yx := equals(x, y), equals(y, x)
	out := xy + " " + yx
	if xy == "fault" || yx == "fault" {
		return core.Fail(out, "types-equals-fault", "Equals faulted")
	}
	if xy != yx {
		return core.Fail(out, "types-asymmetric", "x.Equals(y)="+xy+" y.Equals(x)="+yx)
	}
	kx, okx := keyOf(x)
	ky, oky := keyOf(y)
	if !strings.HasPrefix(okx, "x") || !strings.HasPrefix(oky, "x") {
		return core.Fail(out, "types-key-fault", "ToKey: "+okx+" / "+oky)
	}
	if k2, _ := keyOf(mkT(offA)); k2 != kx {
		return core.Fail(out, "types-copy-key-differs", "a separately built copy has another key")
	}
	if kx == ky && xy != "t" {
		return core.Fail(out, "types-key-equal-for-unequal", "same key "+okx+" but Equals="+xy)
	}
	if kx != ky && xy == "t" {
		class := "types-key-differs-for-equal"
		if offA != offB {
			class = "timestamp-type-zone-key"
		}
		return core.Fail(out, class, "Equals but the keys differ: "+okx+" / "+oky)
	}
	return core.Result{Out: out, Pred: "ok", NonTrivial: true, Tags: []string{"tstype:" + xy}}
}

// typeExprs: type expressions over the kinds the model does not cover (and a few it does, for cross-kind pairs)
var typeExprs = []string{
	"Any", "Undef", "Default", "Unit", "Scalar", "ScalarData", "Data", "RichData", "Numeric", "Boolean", "Boolean[true]", "Boolean[false]",
	"Integer", "Integer[1,2]", "Float", "Float[1.0,2.0]", "String", "String[1]", "String[1,2]", "String[0,2]", "String['a']", "String['b']",
	"Enum['a','b']", "Enum['a','b',true]", "Pattern[/a/]", "Pattern[/a/,/b/]", "Pattern[/b/,/a/]", "Pattern[/a/,/a/]", "Pattern['a']", "Regexp", "Regexp[/a/]", "Regexp[/b/]",
	"Binary", "Timespan", "Timestamp", "SemVer", "SemVerRange", "URI", "Collection", "Collection[1,2]", "Collection[1]",
	"Array", "Array[String]", "Array[String,1,2]", "Array[1,2]", "Array[0,0]", "Array[Any,0,0]",
	"Hash", "Hash[String,Integer]", "Hash[String,Integer,1,2]", "Hash[Integer,String]", "Hash[1,2]", "Hash[0,0]",
	"Tuple", "Tuple[String]", "Tuple[String,Integer]", "Tuple[String,1,2]", "Tuple[String,1,1]", "Tuple[0,0]",
	"Struct", "Struct[{a=>Integer}]", "Struct[{a=>Integer,b=>String}]", "Struct[{b=>String,a=>Integer}]", "Struct[{Optional[a]=>Integer}]", "Struct[{'a'=>Optional[Integer]}]",
	"Variant", "Variant[String,Integer]", "Variant[Integer,String]", "Optional", "Optional[String]", "Optional['a']", "Optional[String['a']]",
	"NotUndef", "NotUndef[String]", "NotUndef['a']", "Type", "Type[String]", "Type[Type[String]]", "Sensitive", "Sensitive[String]",
	"Iterable", "Iterable[String]", "Iterator", "Iterator[String]", "Callable", "Callable[String]", "Callable[String,Integer]", "Callable[[String],String]",
	"Callable[0,0]", "Runtime", "Runtime['go','x']", "Runtime['go','y']", "Init", "Init[String]", "Like", "TypeReference['Foo']", "TypeReference['Bar']",
	"Object", "Object[{name=>'A',attributes=>{a=>Integer}}]", "Object[{name=>'A',attributes=>{a=>String}}]", "Object[{name=>'B',attributes=>{a=>Integer}}]",
	"TypeSet", "Deferred",
	"SemVer['1.x']", "SemVer['2.x']", "SemVer['>=1.0.0 <2.0.0']", "SemVer['1.2.3']",
	"Struct[{a=>Integer,b=>String}]", "Struct[{\"a\\u{3}\\u{c}\\u{1}t\\u{9}\\u{1}sIntegerb\"=>String}]", "Struct[{Optional[a]=>Integer}]", "Struct[{\"Optional['a']\"=>Integer}]",
	"Struct[{NotUndef[a]=>Optional[Integer]}]", "Struct[{\"NotUndef['a']\"=>Optional[Integer]}]", "Struct[{a=>Integer,b=>Integer}]", "Struct[{b=>Integer,a=>Integer}]",
	"URI[{scheme=>'http'}]", "URI[{scheme=>'http',host=>'a'}]", "URI['http://a']", "URI[{host=>'a',scheme=>'http'}]",
	"Callable[Unit,String]", "Callable[String,1,1]", "Callable[String,Unit]", "Callable[Tuple[Unit]]", "Callable[Tuple]", "Callable[0,0]", "Callable[[String],Integer]", "Callable[String,Callable]",
	"Runtime['', 'x']", "Runtime['', 'y']", "Runtime['ruby', 'x']", "Runtime['ruby', 'y']", "Runtime['ruby', 'x', Regexp[/y/]]", "Runtime['ruby', 'x', Regexp[/z/]]", "Runtime['ruby']",
}

// ---- generators ------------------------------------------------------------------------------------------------

func mk(s string) sx.Sexp {
	xs, err := sx.Parse(s)
	if err != nil || len(xs) != 1 {
		panic(fmt.Errorf("bad literal %q", s))
	}
	return xs[0]
}

func fbits(f float64) string { return strconv.FormatUint(math.Float64bits(f), 10) }

func sv(s string) sx.Sexp   { return sx.T("s", sx.Str(s)) }
func iv(i int64) sx.Sexp    { return sx.T("i", sx.Int(i)) }
func fv(f float64) sx.Sexp  { return sx.T("f", sx.A(fbits(f))) }
func av(xs ...sx.Sexp) sx.Sexp { return sx.T("a", xs...) }
func hv(kvs ...sx.Sexp) sx.Sexp {
	es := []sx.Sexp{}
	for i := 0; i+1 < len(kvs); i += 2 {
		es = append(es, sx.L(kvs[i], kvs[i+1]))
	}
	return sx.T("h", es...)
}
func ent(k, v sx.Sexp) sx.Sexp { return sx.T("e", k, v) }
func tv(t string) sx.Sexp      { return sx.T("t", mk(t)) }

var negZero = math.Copysign(0, -1)

const maxS = "9223372036854775807"
const minS = "-9223372036854775808"

// keyImage: a string holding exactly the bytes of the key of v (prefix collisions on purpose)
func keyImage(e sx.Sexp) (sx.Sexp, bool) {
	var k string
	if err := safely(func() { k = string(px.ToKey(valOf(e))) }); err != nil {
		return sx.Sexp{}, false
	}
	return sv(k), true
}

// universe: the exhaustive small universe (pairs over all of it, triples over its first nTriple members)
func universe() []sx.Sexp {
	u := []sx.Sexp{
		// the triple core: one or two of every kind, the regrouping / order / cross-kind witnesses
		mk("(u)"), mk("(d)"), mk("(b t)"), mk("(b f)"),
		iv(0), iv(1), iv(5),
		fv(0), fv(negZero), fv(1), fv(math.NaN()),
		sv(""), sv("a"), sv("ab"), sv("1"),
		sx.T("r", sx.Str("a")), sx.T("x", sx.Str("a")),
		av(), av(iv(1)), av(iv(1), iv(2)), av(av(iv(1)), iv(2)), av(av(iv(1), iv(2))),
		av(sv("a"), sv("b")), av(sv("ab")), av(sv("a"), iv(1)),
		hv(), hv(sv("a"), iv(1)), hv(sv("a"), iv(1), sv("b"), iv(2)), hv(sv("b"), iv(2), sv("a"), iv(1)),
		ent(sv("a"), iv(1)), ent(iv(1), iv(2)),
		sx.T("sens", iv(1)),
		tv("(int 1 2)"), tv("(arr (int " + minS + " " + maxS + ") 1 2)"), tv("(arr (int " + minS + " " + maxS + ") 3 4)"),
		tv("(var (int 1 2) str)"), tv("(var str (int 1 2))"),
		tv("(enum f x61 x62)"), tv("(enum f x62 x61)"),
		tv("(tup ((int 1 2)))"), tv("(tup ((int 1 2)) 1 1)"),
	}
	// key images of members of the core (a top-level string equal to another value's whole key)
	for _, e := range []sx.Sexp{mk("(u)"), iv(5), av(iv(1))} {
		if s, ok := keyImage(e); ok {
			u = append(u, s)
		}
	}
	u = append(u,
		// the rest: only pairs
		iv(-1), iv(256), iv(math.MaxInt64), iv(math.MinInt64),
		fv(-1), fv(math.Inf(1)), fv(math.SmallestNonzeroFloat64), fv(5),
		sv("b"), sv("\x00"), sv("\x01u"), sv("é"), sv("\xff"),
		sx.T("r", sx.Str("")), sx.T("r", sx.Str("a|b")), sx.T("x", sx.Str("")), sx.T("x", sx.Str("ab")), sx.T("x", sx.Str("\x01u")),
		av(mk("(u)")), av(av()), av(av(), av()), av(sv("")), av(sv(""), sv("")), av(iv(1), iv(2), iv(3)), av(fv(0)), av(fv(negZero)),
		av(sv("a"), av(iv(1))), av(ent(sv("a"), iv(1))), av(hv(sv("a"), iv(1))),
		hv(iv(1), iv(2)), hv(sv("a"), iv(2)), hv(sv("a"), mk("(u)")), hv(av(iv(1)), iv(1)), hv(av(sv("a"), sv("b")), iv(1)), hv(av(sv("ab")), iv(1)),
		hv(fv(0), iv(1)), hv(fv(negZero), iv(1)), hv(hv(sv("a"), iv(1), sv("b"), iv(2)), iv(1)), hv(hv(sv("b"), iv(2), sv("a"), iv(1)), iv(1)),
		ent(sv("a"), sv("b")), ent(av(), av()), ent(ent(iv(1), iv(2)), iv(3)),
		sx.T("sens", sv("a")), av(sx.T("sens", iv(1))),
		mk("(ts 0)"), mk("(ts 1000000000)"), mk("(ts 1500000000)"), mk("(ts -1500000000)"), mk("(ts 999999999)"), mk("(ts -999999999)"),
		mk("(tm 0 0)"), mk("(tm 0 1)"), mk("(tm 1 0)"), mk("(tm 1 500000000)"), mk("(tm -1 999999999)"), av(mk("(ts 1000000000)")), hv(mk("(tm 1 0)"), iv(1)),
		sx.T("mh"), sx.T("mh", sx.L(sv("a"), iv(1))), sx.T("mh", sx.L(sv("b"), iv(2)), sx.L(sv("a"), iv(1))), av(sx.T("mh", sx.L(sv("a"), iv(1)))),
		tv("(int "+minS+" "+maxS+")"), tv("(int 1 "+maxS+")"), tv("(int "+minS+" 2)"), tv("(int 0 0)"),
		tv("str"), tv("any"), tv("undef"), tv("(flt "+fbits(-math.MaxFloat64)+" "+fbits(math.MaxFloat64)+")"), tv("(flt "+fbits(1)+" "+fbits(2)+")"),
		tv("(arr any 0 "+maxS+")"), tv("(arr any 1 2)"), tv("(arr str 0 "+maxS+")"), tv("(arr (int 1 2) 3 4)"),
		tv("(enum f)"), tv("(enum f x61)"), tv("(enum f x6162)"), tv("(enum t x61 x62)"), tv("(enum f x61 x61)"),
		tv("(var)"), tv("(var str (int 1 2) undef)"), tv("(var (int 1 2) (int 1 2))"), tv("(var (int 1 2) (int 3 4))"),
		tv("(tup ())"), tv("(tup () 0 0)"), tv("(tup ((int 1 2) str))"), tv("(tup ((int 1 2)) 1 5)"), tv("(tup (str) 1 1)"),
		tv("(opt str)"), tv("(opt (int 1 2))"), tv("(typ str)"), tv("(typ (int 1 2))"),
		av(tv("(int 1 2)")), av(tv("(var (int 1 2) str)")), av(tv("(var str (int 1 2))")), hv(tv("(int 1 2)"), iv(1)),
	)
	for _, e := range []sx.Sexp{mk("(d)"), mk("(b t)"), fv(0), av(), av(sv("a"), sv("b")), hv(sv("a"), iv(1)), tv("(int 1 2)"), sx.T("x", sx.Str("a")), sx.T("r", sx.Str("a"))} {
		if s, ok := keyImage(e); ok {
			u = append(u, s, av(s), hv(s, iv(1)))
		}
	}
	return u
}

const nTripleQuick = 44

var leafStrs = []string{"", "a", "b", "ab", "1", "\x00", "\x01", "\x01u", "\x01i", "A", "\x00A", "é"}
var leafInts = []int64{0, 1, 2, 5, -1, 255, 256, 65536, math.MaxInt64, math.MinInt64}
var leafFloats = []float64{0, negZero, 1, -1, 0.5, math.Inf(1), math.Inf(-1), math.MaxFloat64, math.SmallestNonzeroFloat64}
var regexps = []string{"", "a", "a|b", "^x$", ".*", "[ab]+"}

func randType(r *rand.Rand, depth int) string {
	rng := func() string {
		lo := int64(r.Intn(4))
		hi := lo + int64(r.Intn(3))
		los, his := strconv.FormatInt(lo, 10), strconv.FormatInt(hi, 10)
		if r.Intn(4) == 0 {
			his = maxS
		}
		return los + " " + his
	}
	if r.Intn(4) == 0 {
		return randKindType(r, depth)
	}
	if depth <= 0 || r.Intn(3) == 0 {
		switch r.Intn(7) {
		case 0:
			return "str"
		case 1:
			return "any"
		case 2:
			return "undef"
		case 3:
			n := r.Intn(4)
			s := "(enum " + sx.B(r.Intn(5) == 0)
			for i := 0; i < n; i++ {
				s += " " + sx.Str([]string{"a", "b", "ab", "c"}[r.Intn(4)]).Atom
			}
			return s + ")"
		case 4:
			return "(flt " + fbits(float64(r.Intn(3))) + " " + fbits(float64(3+r.Intn(3))) + ")"
		default:
			lo := int64(r.Intn(4)) - 1
			hi := lo + int64(r.Intn(4))
			los, his := strconv.FormatInt(lo, 10), strconv.FormatInt(hi, 10)
			if r.Intn(4) == 0 {
				los = minS
			}
			if r.Intn(4) == 0 {
				his = maxS
			}
			return "(int " + los + " " + his + ")"
		}
	}
	switch r.Intn(5) {
	case 0:
		return "(arr " + randType(r, depth-1) + " " + rng() + ")"
	case 1:
		n := r.Intn(4)
		s := "(var"
		for i := 0; i < n; i++ {
			s += " " + randType(r, depth-1)
		}
		return s + ")"
	case 2:
		n := r.Intn(3)
		xs := []string{}
		for i := 0; i < n; i++ {
			xs = append(xs, randType(r, depth-1))
		}
		s := "(tup (" + strings.Join(xs, " ") + ")"
		switch r.Intn(3) {
		case 0:
			s += " " + rng()
		case 1:
			s += fmt.Sprintf(" %d %d", n, n)
		}
		return s + ")"
	case 3:
		return "(opt " + randType(r, depth-1) + ")"
	default:
		return "(typ " + randType(r, depth-1) + ")"
	}
}

func randLeaf(r *rand.Rand) sx.Sexp {
	if r.Intn(8) == 0 {
		return randKind(r, 1)
	}
	switch r.Intn(14) {
	case 12:
		return sx.T("ts", sx.Int([]int64{0, 1, 999999999, 1000000000, 1500000000, -1, -1000000000, -1500000000, 86400000000000, math.MaxInt64, math.MinInt64}[r.Intn(11)]))
	case 13:
		return sx.T("tm", sx.Int([]int64{0, 1, -1, 1500000000, 253402300799}[r.Intn(5)]), sx.Int([]int64{0, 1, 500000000, 999999999}[r.Intn(4)]))
	case 0:
		return mk("(u)")
	case 1:
		return mk("(d)")
	case 2:
		return sx.T("b", sx.Bool(r.Intn(2) == 0))
	case 3, 4:
		return iv(leafInts[r.Intn(len(leafInts))])
	case 5:
		if r.Intn(12) == 0 {
			return fv(math.NaN())
		}
		return fv(leafFloats[r.Intn(len(leafFloats))])
	case 6, 7, 8:
		return sv(leafStrs[r.Intn(len(leafStrs))])
	case 9:
		return sx.T("r", sx.Str(regexps[r.Intn(len(regexps))]))
	case 10:
		return sx.T("x", sx.Str(leafStrs[r.Intn(len(leafStrs))]))
	default:
		return tv(randType(r, 2))
	}
}

func randVal(r *rand.Rand, depth int) sx.Sexp {
	if depth <= 0 || r.Intn(3) == 0 {
		return randLeaf(r)
	}
	switch r.Intn(9) {
	case 0, 1, 2, 3:
		n := r.Intn(4)
		xs := []sx.Sexp{}
		for i := 0; i < n; i++ {
			xs = append(xs, randVal(r, depth-1))
		}
		return sx.T("a", xs...)
	case 4, 5, 6:
		n := r.Intn(4)
		xs := []sx.Sexp{}
		seen := map[string]bool{}
		for i := 0; i < n; i++ {
			k := randVal(r, depth-1)
			if r.Intn(2) == 0 {
				k = randLeaf(r)
			}
			ks := k.String()
			if seen[ks] && r.Intn(20) != 0 { // a duplicated key only rarely (not a well-formed hash)
				continue
			}
			seen[ks] = true
			xs = append(xs, sx.L(k, randVal(r, depth-1)))
		}
		return sx.T("h", xs...)
	case 7:
		return sx.T("e", randVal(r, depth-1), randVal(r, depth-1))
	default:
		if r.Intn(4) == 0 {
			return sx.T("sens", randVal(r, depth-1))
		}
		if s, ok := keyImage(randVal(r, depth-1)); ok {
			return s
		}
		return randLeaf(r)
	}
}

// mutate: a one-point mutation of the tree, or a related value of another shape
func mutate(r *rand.Rand, e sx.Sexp) sx.Sexp {
	a := e.Args()
	if m, ok := mutateKind(r, e); ok {
		return m
	}
	switch e.Tag() {
	case "a":
		switch r.Intn(7) {
		case 0: // regroup: wrap a prefix into a nested array
			if len(a) >= 1 {
				n := 1 + r.Intn(len(a))
				return sx.T("a", append([]sx.Sexp{sx.T("a", a[:n]...)}, a[n:]...)...)
			}
		case 1: // flatten one nested array
			for i, k := range a {
				if k.Tag() == "a" {
					xs := append(append(append([]sx.Sexp{}, a[:i]...), k.Args()...), a[i+1:]...)
					return sx.T("a", xs...)
				}
			}
		case 2: // join two adjacent strings
			for i := 0; i+1 < len(a); i++ {
				if a[i].Tag() == "s" && a[i+1].Tag() == "s" {
					j := sv(a[i].Args()[0].MustStr() + a[i+1].Args()[0].MustStr())
					xs := append(append(append([]sx.Sexp{}, a[:i]...), j), a[i+2:]...)
					return sx.T("a", xs...)
				}
			}
		case 3: // cross-kind: array of two ↔ hash entry
			if len(a) == 2 {
				return sx.T("e", a[0], a[1])
			}
		case 4: // drop / duplicate an element
			if len(a) > 0 {
				i := r.Intn(len(a))
				if r.Intn(2) == 0 {
					return sx.T("a", append(append([]sx.Sexp{}, a[:i]...), a[i+1:]...)...)
				}
				return sx.T("a", append(append(append([]sx.Sexp{}, a[:i+1]...), a[i]), a[i+1:]...)...)
			}
		case 5: // same elements as a hash
			if len(a)%2 == 0 && len(a) > 0 {
				return hv(a...)
			}
		}
		if len(a) > 0 {
			i := r.Intn(len(a))
			xs := append([]sx.Sexp{}, a...)
			xs[i] = mutate(r, a[i])
			return sx.T("a", xs...)
		}
		return av(mk("(u)"))
	case "mh":
		return sx.T("h", a...)
	case "h":
		if r.Intn(5) == 0 && hashKeysKeyable(e) { // the same entries put into a builder
			return sx.T("mh", a...)
		}
		if len(a) > 1 && r.Intn(2) == 0 { // permuted insertion order
			xs := append([]sx.Sexp{}, a...)
			r.Shuffle(len(xs), func(i, j int) { xs[i], xs[j] = xs[j], xs[i] })
			return sx.T("h", xs...)
		}
		if len(a) > 0 {
			i := r.Intn(len(a))
			xs := append([]sx.Sexp{}, a...)
			switch r.Intn(4) {
			case 0:
				return sx.T("h", append(xs[:i], xs[i+1:]...)...)
			case 1:
				xs[i] = sx.L(mutate(r, a[i].List[0]), a[i].List[1])
			case 2:
				flat := []sx.Sexp{}
				for _, kv := range a {
					flat = append(flat, sx.T("a", kv.List[0], kv.List[1]))
				}
				return sx.T("a", flat...)
			default:
				xs[i] = sx.L(a[i].List[0], mutate(r, a[i].List[1]))
			}
			return sx.T("h", xs...)
		}
		return hv(sv("a"), iv(1))
	case "e":
		switch r.Intn(3) {
		case 0:
			return sx.T("a", a[0], a[1])
		case 1:
			return sx.T("e", mutate(r, a[0]), a[1])
		}
		return sx.T("e", a[0], mutate(r, a[1]))
	case "i":
		n := a[0].MustInt()
		switch r.Intn(5) {
		case 0:
			return iv(n ^ 1)
		case 1:
			return iv(n ^ (1 << uint(r.Intn(64))))
		case 2:
			return fv(float64(n))
		case 3:
			return sv(strconv.FormatInt(n, 10))
		}
		if s, ok := keyImage(e); ok {
			return s
		}
	case "f":
		b := u64(a[0])
		switch r.Intn(3) {
		case 0:
			return sx.T("f", sx.A(strconv.FormatUint(b^(1<<63), 10))) // flip the sign (0.0 / -0.0)
		case 1:
			return sx.T("f", sx.A(strconv.FormatUint(b^(1<<uint(r.Intn(64))), 10)))
		}
		return iv(int64(b))
	case "s":
		s := a[0].MustStr()
		switch r.Intn(5) {
		case 0:
			return sv(s + "a")
		case 1:
			if len(s) > 0 {
				return sv(s[:len(s)-1])
			}
		case 2:
			return sx.T("x", sx.Str(s))
		case 3:
			return av(sv(s))
		}
		return sv(strings.ToUpper(s) + "\x00")
	case "ts":
		n := a[0].MustInt()
		switch r.Intn(4) {
		case 0: // within the same second (Equal: a Timespan is compared by whole seconds)
			return sx.T("ts", sx.Int(n/1000000000*1000000000))
		case 1:
			return sx.T("ts", sx.Int(n^(1<<uint(r.Intn(40)))))
		case 2:
			return iv(n / 1000000000)
		}
		return sx.T("tm", sx.Int(n/1000000000), sx.Int(0))
	case "tm":
		switch r.Intn(3) {
		case 0:
			return sx.T("tm", a[0], sx.Int((a[1].MustInt()+1)%1000000000))
		case 1:
			return sx.T("tm", sx.Int(a[0].MustInt()+1), a[1])
		}
		return sx.T("ts", sx.Int(a[0].MustInt()))
	case "x":
		return sx.T("s", a[0])
	case "r":
		return sx.T("s", a[0])
	case "b":
		return sx.T("b", sx.Bool(!a[0].MustBool()))
	case "u":
		return mk("(d)")
	case "d":
		return mk("(u)")
	case "sens":
		return a[0]
	case "t":
		return sx.T("t", mutType(r, a[0]))
	}
	if s, ok := keyImage(e); ok {
		return s
	}
	return mk("(u)")
}

// equalVariant: another spelling of an Equal value — entry ↔ two-element array, permuted hash, hash ↔ builder, 0.0 ↔ -0.0,
// a Tuple with its implied size written out, permuted Variant/Enum members — applied at random depths
func equalVariant(r *rand.Rand, e sx.Sexp) sx.Sexp {
	a := e.Args()
	rec := func(xs []sx.Sexp) []sx.Sexp {
		out := make([]sx.Sexp, len(xs))
		for i, x := range xs {
			out[i] = x
			if r.Intn(2) == 0 {
				out[i] = equalVariant(r, x)
			}
		}
		return out
	}
	switch e.Tag() {
	case "a":
		xs := rec(a)
		if len(xs) == 2 && r.Intn(2) == 0 {
			return sx.T("e", xs...)
		}
		return sx.T("a", xs...)
	case "e":
		xs := rec(a)
		if r.Intn(2) == 0 {
			return sx.T("a", xs...)
		}
		return sx.T("e", xs...)
	case "h", "mh":
		xs := make([]sx.Sexp, len(a))
		for i, kv := range a {
			kv2 := rec(kv.List)
			xs[i] = sx.L(kv2[0], kv2[1])
		}
		r.Shuffle(len(xs), func(i, j int) { xs[i], xs[j] = xs[j], xs[i] })
		tag := "h"
		if r.Intn(4) == 0 && hashKeysKeyable(e) && !dupSexpKeys(xs) {
			tag = "mh"
		}
		return sx.T(tag, xs...)
	case "f":
		b := u64(a[0])
		if b == 0 || b == 1<<63 {
			return sx.T("f", sx.A(strconv.FormatUint(b^(1<<63), 10)))
		}
	case "t":
		return sx.T("t", equalType(r, a[0]))
	}
	if m, ok := equalKind(r, e); ok {
		return m
	}
	return e
}

func dupSexpKeys(kvs []sx.Sexp) bool {
	seen := map[string]bool{}
	for _, kv := range kvs {
		k := kv.List[0].String()
		if seen[k] {
			return true
		}
		seen[k] = true
	}
	return false
}

func equalType(r *rand.Rand, t sx.Sexp) sx.Sexp {
	a := t.Args()
	switch t.Tag() {
	case "var", "enum":
		from := 0
		if t.Tag() == "enum" {
			from = 1
		}
		xs := append([]sx.Sexp{}, a...)
		if t.Tag() == "var" {
			for i := range xs {
				xs[i] = equalType(r, xs[i])
			}
		}
		if r.Intn(3) == 0 {
			rest := xs[from:]
			r.Shuffle(len(rest), func(i, j int) { rest[i], rest[j] = rest[j], rest[i] })
		}
		return sx.T(t.Tag(), xs...)
	case "tup":
		ts := make([]sx.Sexp, len(a[0].List))
		for i, m := range a[0].List {
			ts[i] = equalType(r, m)
		}
		n := int64(len(ts))
		if len(a) == 1 && r.Intn(2) == 0 {
			return sx.T("tup", sx.L(ts...), sx.Int(n), sx.Int(n))
		}
		if len(a) == 3 && a[1].MustInt() == n && a[2].MustInt() == n && r.Intn(2) == 0 {
			return sx.T("tup", sx.L(ts...))
		}
		return sx.T("tup", append([]sx.Sexp{sx.L(ts...)}, a[1:]...)...)
	case "arr":
		return sx.T("arr", equalType(r, a[0]), a[1], a[2])
	case "opt", "typ", "notundef", "sensitive", "iterable", "iterator", "init":
		return sx.T(t.Tag(), equalType(r, a[0]))
	case "hash":
		return sx.T("hash", equalType(r, a[0]), equalType(r, a[1]), a[2], a[3])
	case "struct":
		xs := []sx.Sexp{}
		for _, m := range a {
			xs = append(xs, sx.L(m.List[0], m.List[1], equalType(r, m.List[2])))
		}
		return sx.T("struct", xs...)
	case "like":
		return sx.T("like", equalType(r, a[0]), a[1])
	case "pat":
		xs := append([]sx.Sexp{}, a...)
		if r.Intn(2) == 0 {
			r.Shuffle(len(xs), func(i, j int) { xs[i], xs[j] = xs[j], xs[i] })
		}
		return sx.T("pat", xs...)
	case "strs":
		if r.Intn(2) == 0 { // a negative lower bound is 0
			switch lo := a[0].MustInt(); {
			case lo == 0:
				return sx.T("strs", sx.Int(int64(-1-r.Intn(3))), a[1])
			case lo < 0:
				return sx.T("strs", sx.Int(0), a[1])
			}
		}
	}
	return t
}

func mutType(r *rand.Rand, t sx.Sexp) sx.Sexp {
	a := t.Args()
	if m, ok := mutKindType(r, t); ok {
		return m
	}
	switch t.Tag() {
	case "var", "enum":
		from := 0
		if t.Tag() == "enum" {
			from = 1
		}
		if len(a)-from > 1 && r.Intn(2) == 0 { // permute the members
			xs := append([]sx.Sexp{}, a...)
			rest := xs[from:]
			r.Shuffle(len(rest), func(i, j int) { rest[i], rest[j] = rest[j], rest[i] })
			return sx.T(t.Tag(), xs...)
		}
		if t.Tag() == "enum" && len(a) > 2 && r.Intn(2) == 0 { // join two values
			j := sx.Str(a[1].MustStr() + a[2].MustStr())
			return sx.T("enum", append([]sx.Sexp{a[0], j}, a[3:]...)...)
		}
		if len(a)-from > 0 {
			i := from + r.Intn(len(a)-from)
			xs := append([]sx.Sexp{}, a...)
			if r.Intn(2) == 0 {
				xs = append(xs, xs[i]) // duplicate a member
			} else if t.Tag() == "var" {
				xs[i] = mutType(r, xs[i])
			} else {
				xs[i] = sx.Str(xs[i].MustStr() + "b")
			}
			return sx.T(t.Tag(), xs...)
		}
	case "tup":
		n := int64(len(a[0].List))
		if len(a) == 1 {
			return sx.T("tup", a[0], sx.Int(n), sx.Int(n)) // the explicit form of the implied size
		}
		if r.Intn(2) == 0 {
			return sx.T("tup", a[0])
		}
		return sx.T("tup", a[0], a[1], sx.Int(a[2].MustInt()/2+1+a[1].MustInt()))
	case "arr":
		switch r.Intn(3) {
		case 0:
			return sx.T("arr", mutType(r, a[0]), a[1], a[2])
		case 1:
			return sx.T("arr", a[0], a[1], sx.A(maxS))
		}
		return sx.T("arr", a[0], sx.Int(a[1].MustInt()+1), sx.A(maxS))
	case "int":
		if r.Intn(2) == 0 {
			return sx.T("int", a[0], sx.A(maxS))
		}
		return sx.T("int", sx.A(minS), a[1])
	case "opt":
		if r.Intn(2) == 0 {
			return a[0]
		}
		return sx.T("opt", mutType(r, a[0]))
	case "typ":
		return sx.T("typ", mutType(r, a[0]))
	}
	return mk(randType(r, 1))
}

// ---- length-boundary shapes -------------------------------------------------------------------------------------
//
// A container frames every element as <uvarint length><key>.  The shapes below put the *length fields* on their
// boundaries (one byte ↔ two ↔ three: key lengths 127/128, 255/256/257, 16383/16384) and pair every such container with
// the counterparts that are distinct values but would get the same bytes if a length field were truncated, mis-sized or
// ignored: the same elements regrouped at every split point, and a *forged string element* whose content is the byte
// image of the frames of the following elements.  The reference encoder is the harness's own (it must not depend on the
// implementation under test, which may be the thing that is wrong).

func refUvarint(n int) []byte {
	out := []byte{}
	for n >= 128 {
		out = append(out, byte(n%128+128))
		n /= 128
	}
	return append(out, byte(n))
}

// refMK: the marked key of an element (kinds b i s u a only)
func refMK(e sx.Sexp) []byte {
	a := e.Args()
	switch e.Tag() {
	case "u":
		return []byte{1, 'u'}
	case "b":
		if a[0].MustBool() {
			return []byte{1, 'b', 1}
		}
		return []byte{1, 'b', 0}
	case "i":
		n := uint64(a[0].MustInt())
		out := []byte{1, 'i'}
		for s := 56; s >= 0; s -= 8 {
			out = append(out, byte(n>>uint(s)))
		}
		return out
	case "s":
		return append([]byte{1, 's'}, []byte(a[0].MustStr())...)
	case "a":
		out := []byte{0, 'A'}
		for _, k := range a {
			out = append(out, refElem(k)...)
		}
		return out
	}
	panic(fmt.Errorf("refMK: kind %s", e.Tag()))
}

func refElem(e sx.Sexp) []byte {
	k := refMK(e)
	return append(refUvarint(len(k)), k...)
}

// fill: elements (a string first, then booleans / an integer now and then) whose frames add up to exactly total bytes;
// big = most of the room is taken by the string
func fill(total int, big bool) []sx.Sexp {
	from := 0
	if big && total > 200 {
		from = total - 120
	}
	for l := from; l < from+64; l++ {
		first := sv(strings.Repeat("x", l))
		rest := total - len(refElem(first))
		if rest < 0 {
			break
		}
		// rest = 4*bools + 11*ints
		for ints := 0; ints < 4; ints++ {
			if r := rest - 11*ints; r >= 0 && r%4 == 0 {
				es := []sx.Sexp{first}
				for i := 0; i < ints; i++ {
					es = append(es, iv(int64(i)))
				}
				for i := 0; i < r/4; i++ {
					es = append(es, sx.T("b", sx.Bool(i%2 == 0)))
				}
				return es
			}
		}
	}
	return nil
}

func boundaryPair(g *core.G, a, b sx.Sexp) {
	g.Emit("eq " + a.String() + " " + b.String())
	g.Emit("unique " + av(a, b, a).String())
	g.Emit("get " + hv(a, iv(1)).String() + " " + b.String())
}

func boundaryShapes(g *core.G) {
	targets := []int{124, 127, 128, 129, 252, 255, 256, 257, 260, 512, 16383, 16384, 16385}
	for _, total := range targets {
		for _, big := range []bool{false, true} {
			if (total > 1000) != big && total > 1000 && !g.Thorough() {
				continue // quick tier: the 16 KiB shapes only in their compact (big string) form
			}
			es := fill(total, big)
			if es == nil {
				continue
			}
			n := len(es)
			whole := sx.T("a", es...)
			g.Emit("key " + av(whole).String())
			// split points: all of them for short lists, else the ends, the middle and wherever the frames of the
			// suffix add up to a multiple of 128 (a length-field boundary)
			splits := map[int]bool{0: true, 1: true, n / 2: true, n - 1: true, n: true}
			suffix := 0
			for j := n - 1; j >= 0; j-- {
				suffix += len(refElem(es[j]))
				if suffix%128 == 0 || n <= 70 {
					splits[j] = true
				}
			}
			count := 0
			for j := 0; j <= n; j++ {
				if !splits[j] || (total > 1000 && count >= 6) {
					continue
				}
				count++
				// [[e1..en]]  against  [[e1..ej], ej+1, .., en]   — once and twice nested
				a := av(whole)
				b := sx.T("a", append([]sx.Sexp{sx.T("a", es[:j]...)}, es[j:]...)...)
				if a.String() == b.String() {
					continue
				}
				boundaryPair(g, a, b)
				if total < 1000 || j == 0 {
					boundaryPair(g, av(a), av(b))
					boundaryPair(g, hv(a, iv(1)), hv(b, iv(1)))
					boundaryPair(g, ent(a, iv(1)), ent(b, iv(1)))
				}
			}
			// the forged string: the first (string) element swallowing the frames of the elements after it
			for _, j := range []int{1, n / 2} {
				if j < 1 || j >= n {
					continue
				}
				forged := es[0].Args()[0].MustStr()
				for _, e := range es[1 : j+1] {
					forged += string(refElem(e))
				}
				fs := append([]sx.Sexp{sv(forged)}, es[j+1:]...)
				// and the other way round: everything after the first element swallowed
				a := sx.T("a", fs...)
				boundaryPair(g, whole, a)
				boundaryPair(g, av(whole), av(a))
			}
			all := es[0].Args()[0].MustStr()
			for _, e := range es[1:] {
				all += string(refElem(e))
			}
			boundaryPair(g, whole, av(sv(all)))
			boundaryPair(g, av(whole), av(av(sv(all))))
			boundaryPair(g, hv(whole, iv(1)), hv(av(sv(all)), iv(1)))
			// a string element on the boundary against its neighbours in length
			l := total - 2
			boundaryPair(g, av(sv(strings.Repeat("a", l))), av(sv(strings.Repeat("a", l+1))))
			boundaryPair(g, av(sv(strings.Repeat("a", l))), av(sv(strings.Repeat("a", l)), sv("")))
		}
	}
}

// ---- wrap-around distances ---------------------------------------------------------------------------------------
//
// Every fixed-width numeric payload of a key (integer, float bits, timespan seconds, timestamp seconds / nanoseconds) is
// paired with the values that lie 2^8, 2^16, 2^32, 2^63 and 2^64 units away, in every unit the value can be expressed in
// (bits; nanoseconds and seconds for the two time kinds), from bases that include the ends of the int64 range and
// instants far outside the range of UnixNano (years 1, 1400, 1677, 2262, 2300, 9999).  Distinct values at such a distance
// get the same bytes when a payload is truncated, re-based to another unit or computed in wrapping arithmetic.

var wrapDistances = []uint{8, 16, 32, 63, 64}

func inInt64(x *big.Int) bool { return x.IsInt64() }

func wrapPairs(g *core.G) {
	emit := func(a, b sx.Sexp) {
		if a.String() == b.String() {
			return
		}
		boundaryPair(g, a, b)
		boundaryPair(g, av(a, iv(1)), av(b, iv(1)))
	}
	one := big.NewInt(1)
	dists := func() []*big.Int {
		out := []*big.Int{}
		for _, k := range wrapDistances {
			d := new(big.Int).Lsh(one, k)
			out = append(out, d, new(big.Int).Neg(d))
		}
		return out
	}()
	// integers (unit 1) and timespans (units ns and s)
	for _, base := range []int64{0, 1, -1, 5, math.MinInt64, math.MaxInt64, -(1 << 62), 1 << 62, 1500000000, -1500000000} {
		for _, d := range dists {
			if v := new(big.Int).Add(big.NewInt(base), d); inInt64(v) {
				emit(iv(base), iv(v.Int64()))
				emit(sx.T("ts", sx.Int(base)), sx.T("ts", sx.Int(v.Int64())))
			}
			if v := new(big.Int).Add(big.NewInt(base), new(big.Int).Mul(d, big.NewInt(1000000000))); inInt64(v) {
				emit(sx.T("ts", sx.Int(base)), sx.T("ts", sx.Int(v.Int64())))
			}
		}
	}
	// float bit patterns (unit: one bit pattern step), NaN patterns left out
	for _, base := range []uint64{0, 1 << 63, math.Float64bits(1), math.Float64bits(-1), math.Float64bits(5e-324), math.Float64bits(math.MaxFloat64), math.Float64bits(1e300)} {
		for _, k := range []uint{8, 16, 32, 63} {
			for _, v := range []uint64{base + 1<<k, base - 1<<k, base ^ 1<<k} {
				f := math.Float64frombits(v)
				if f == f {
					emit(sx.T("f", sx.A(strconv.FormatUint(base, 10))), sx.T("f", sx.A(strconv.FormatUint(v, 10))))
				}
			}
		}
	}
	// timestamps: (seconds, nanoseconds) from bases inside and far outside 1677..2262, at distances in ns and in s
	year := func(y int) int64 { return time.Date(y, 1, 1, 0, 0, 0, 0, time.UTC).Unix() }
	billion := big.NewInt(1000000000)
	tm := func(total *big.Int) (sx.Sexp, bool) { // total nanoseconds since the epoch → (tm secs nanos)
		secs, nanos := new(big.Int).DivMod(total, billion, new(big.Int)) // Euclidean: 0 <= nanos < 1e9
		if !secs.IsInt64() || secs.Int64() > 1<<61 || secs.Int64() < -(1<<61) {
			return sx.Sexp{}, false
		}
		return sx.T("tm", sx.Int(secs.Int64()), sx.Int(nanos.Int64())), true
	}
	for _, bs := range []int64{0, 1, -1, year(1), year(1400), year(1677), year(1970), year(2020), year(2262), year(2300), year(9999)} {
		for _, bn := range []int64{0, 1, 500000000, 999999999} {
			total := new(big.Int).Add(new(big.Int).Mul(big.NewInt(bs), billion), big.NewInt(bn))
			a, _ := tm(total)
			for _, d := range dists {
				if b, ok := tm(new(big.Int).Add(total, d)); ok { // d nanoseconds away
					emit(a, b)
				}
				if b, ok := tm(new(big.Int).Add(total, new(big.Int).Mul(d, billion))); ok { // d seconds away
					emit(a, b)
				}
			}
		}
	}
}

func gen(g *core.G) {
	r := g.Rng
	u := universe()
	nT := nTripleQuick
	if g.Thorough() {
		nT = len(u)
		if nT > 120 {
			nT = 120
		}
	}
	// 1. exhaustive small universe: key of every member, every ordered pair, every triple over the core
	for _, x := range u {
		g.Emit("key " + x.String())
	}
	for _, x := range u {
		for _, y := range u {
			g.Emit("eq " + x.String() + " " + y.String())
		}
	}
	for _, x := range u[:nT] {
		for _, y := range u[:nT] {
			for _, z := range u[:nT] {
				g.Emit("eq3 " + x.String() + " " + y.String() + " " + z.String())
			}
		}
	}
	// unique over every pair of the universe (merge / keep apart), get of every member in a hash keyed by every member
	for _, x := range u {
		for _, y := range u {
			if x.Tag() == "sens" || y.Tag() == "sens" {
				continue
			}
			g.Emit("unique " + av(x, y, x).String())
			g.Emit("get " + hv(x, iv(1)).String() + " " + y.String())
		}
	}
	// implementation-only: the laws on every ordered pair of the type expressions (kinds without a model counterpart)
	for _, a := range typeExprs {
		for _, b := range typeExprs {
			g.Emit("@teq " + sx.Str(a).Atom + " " + sx.Str(b).Atom)
		}
	}
	for i := 0; i < 4000*g.Scale; i++ {
		a, b, cc := typeExprs[r.Intn(len(typeExprs))], typeExprs[r.Intn(len(typeExprs))], typeExprs[r.Intn(len(typeExprs))]
		g.Emit("@teq3 " + sx.Str(a).Atom + " " + sx.Str(b).Atom + " " + sx.Str(cc).Atom)
	}
	// every ordered pair of the type values of both rounds (eq, unique, get), and triples at random
	tu := typeUniverse()
	for _, x := range tu {
		g.Emit("key " + x.String())
		for _, y := range tu {
			g.Emit("eq " + x.String() + " " + y.String())
			g.Emit("unique " + av(x, y, x).String())
			g.Emit("get " + hv(x, iv(1)).String() + " " + y.String())
		}
		if s, ok := keyImage(x); ok {
			g.Emit("eq " + s.String() + " " + x.String())
			g.Emit("eq " + av(s).String() + " " + av(x).String())
			g.Emit("get " + hv(x, iv(1)).String() + " " + s.String())
			// a String['v'] whose value is the key of a type, wrapped (the parameter of Optional['v'] is the string v)
			g.Emit("eq " + tv("(opt (strv "+s.Args()[0].String()+"))").String() + " " + tv("(opt "+x.Args()[0].String()+")").String())
		}
	}
	for i := 0; i < 4000*g.Scale; i++ {
		g.Emit("eq3 " + tu[r.Intn(len(tu))].String() + " " + tu[r.Intn(len(tu))].String() + " " + tu[r.Intn(len(tu))].String())
	}
	// the kinds brought inside the model in the extension round (URI, SemVer, SemVerRange, TypedName, Deferred, Parameter):
	// every ordered pair over their universe, bare, as array elements and as hash keys; crossed with a core of the old kinds;
	// a string holding the key bytes of each (the raw-string class)
	ku := kindUniverse()
	g.Emit("@objcheck")
	for i := 0; i < nRefl; i++ {
		for j := 0; j < nRefl; j++ {
			g.Emit(fmt.Sprintf("@refl %d %d", i, j))
		}
	}
	for _, s := range []int64{0, 1000, -1, 1500000000} { // Timestamp types with one instant as their bound, written in two zones
		for _, n := range []int64{0, 5} {
			for _, oa := range []int64{0, 3600, -18000} {
				for _, ob := range []int64{0, 3600, -18000} {
					g.Emit(fmt.Sprintf("@tstype %d %d %d %d", s, n, oa, ob))
				}
			}
			g.Emit(fmt.Sprintf("@tstype %d %d 0 0", s+1, n)) // and against another instant: not Equal, other key
		}
	}
	ku = append(ku, objUniverse()...)
	for _, row := range rangeTable() { // the range table itself: the stated ranges are what each spelling parses to
		for _, o := range row.origs {
			line := "@vrcheck " + sx.Str(o).Atom
			for _, rg := range row.rs {
				line += " " + rg.String()
			}
			g.Emit(line)
		}
	}
	for _, x := range ku {
		g.Emit("key " + x.String())
		g.Emit("key " + av(x, iv(1)).String())
		for _, y := range ku {
			g.Emit("eq " + x.String() + " " + y.String())
			g.Emit("eq " + av(x, iv(1)).String() + " " + av(y, iv(1)).String())
			g.Emit("unique " + av(x, y, x).String())
			if keyableSexp(x) {
				g.Emit("get " + hv(x, iv(1)).String() + " " + y.String())
			}
		}
		for _, y := range kindCore() {
			g.Emit("eq " + x.String() + " " + y.String())
			g.Emit("eq " + y.String() + " " + x.String())
			g.Emit("unique " + av(x, y, x).String())
			if keyableSexp(y) {
				g.Emit("get " + hv(y, iv(1)).String() + " " + x.String())
			}
		}
		if s, ok := keyImage(x); ok {
			g.Emit("eq " + s.String() + " " + x.String())
			g.Emit("eq " + av(s).String() + " " + av(x).String())
			g.Emit("unique " + av(x, s).String())
			g.Emit("get " + hv(x, iv(1)).String() + " " + s.String())
		}
	}
	for i := 0; i < 3000*g.Scale; i++ {
		g.Emit("eq3 " + ku[r.Intn(len(ku))].String() + " " + ku[r.Intn(len(ku))].String() + " " + ku[r.Intn(len(ku))].String())
	}
	// versions the constructor rejects (malformed stream: the model of the two anchored regexps against the real ones)
	for _, p := range append(append([]string{}, badPreStrs...), preStrs...) {
		g.Emit("key " + verS(1, 0, 0, p, "").String())
		g.Emit("eq " + verS(1, 0, 0, p, "").String() + " " + verS(1, 0, 0, "", "").String())
	}
	for _, b := range append(append([]string{}, badBuildStrs...), buildStrs...) {
		g.Emit("key " + verS(1, 0, 0, "", b).String())
	}
	g.Emit("key " + verS(-1, 0, 0, "", "").String())
	g.Emit("key " + verS(0, -1, 0, "", "").String())
	g.Emit("key " + verS(0, 0, -1, "", "").String())
	// length-field boundaries with their regrouped / forged counterparts
	boundaryShapes(g)
	// fixed-width payloads at wrap-around distances
	wrapPairs(g)
	// 2. structured random cases: related pairs on purpose
	n := 2500 * g.Scale
	for i := 0; i < n; i++ {
		x := randVal(r, 1+r.Intn(3))
		var y sx.Sexp
		switch r.Intn(6) {
		case 0:
			y = x // structurally equal copy (built separately by the executor)
		case 1:
			y = randVal(r, 1+r.Intn(3))
		default:
			y = mutate(r, x)
		}
		g.Emit("eq " + x.String() + " " + y.String())
		if i%4 == 0 {
			g.Emit("key " + x.String())
			g.Emit("key " + y.String())
		}
		if i%3 == 0 {
			z := mutate(r, y)
			if r.Intn(3) == 0 {
				z = x
			}
			g.Emit("eq3 " + x.String() + " " + y.String() + " " + z.String())
		}
		if i%3 == 1 {
			// a chain of Equal spellings (transitivity with true premises), sometimes broken by a mutation at the end
			x2 := randVal(r, 2+r.Intn(2))
			y2 := equalVariant(r, x2)
			z2 := equalVariant(r, y2)
			if r.Intn(4) == 0 {
				z2 = mutate(r, z2)
			}
			g.Emit("eq3 " + x2.String() + " " + y2.String() + " " + z2.String())
			g.Emit("eq " + x2.String() + " " + z2.String())
			g.Emit("unique " + av(x2, y2, z2).String())
			g.Emit("get " + hv(y2, iv(1)).String() + " " + z2.String())
		}
		if i%2 == 0 {
			// a list with related members: x, its mutation, copies, and the key image of one of them
			xs := []sx.Sexp{x, y, x}
			for j := r.Intn(3); j > 0; j-- {
				xs = append(xs, mutate(r, xs[r.Intn(len(xs))]))
			}
			if s, ok := keyImage(xs[r.Intn(len(xs))]); ok && r.Intn(3) == 0 {
				xs = append(xs, s)
			}
			r.Shuffle(len(xs), func(i, j int) { xs[i], xs[j] = xs[j], xs[i] })
			g.Emit("unique " + sx.T("a", xs...).String())
		}
		if i%2 == 1 {
			// a hash keyed by related values, looked up with a member, a mutation, a copy
			ks := []sx.Sexp{x}
			if y.String() != x.String() {
				ks = append(ks, y)
			}
			for j := r.Intn(3); j > 0; j-- {
				k := randVal(r, 2)
				dup := false
				for _, o := range ks {
					if o.String() == k.String() {
						dup = true
					}
				}
				if !dup {
					ks = append(ks, k)
				}
			}
			r.Shuffle(len(ks), func(i, j int) { ks[i], ks[j] = ks[j], ks[i] })
			kvs := []sx.Sexp{}
			for j, k := range ks {
				kvs = append(kvs, k, iv(int64(j)))
			}
			h := hv(kvs...)
			var q sx.Sexp
			switch r.Intn(4) {
			case 0:
				q = ks[r.Intn(len(ks))]
			case 1:
				q = mutate(r, ks[r.Intn(len(ks))])
			case 2:
				q, _ = keyImage(ks[r.Intn(len(ks))])
				if !q.IsList {
					q = x
				}
			default:
				q = randVal(r, 2)
			}
			g.Emit("get " + h.String() + " " + q.String())
		}
	}
	// 3. malformed stream: hashes with repeated keys (outside the quantifier; model and implementation must agree)
	for i := 0; i < 150*g.Scale; i++ {
		k := randLeaf(r)
		h := sx.T("h", sx.L(k, iv(1)), sx.L(randLeaf(r), iv(2)), sx.L(k, iv(3)))
		h2 := sx.T("h", sx.L(k, iv(3)), sx.L(randLeaf(r), iv(2)))
		g.Emit("eq " + h.String() + " " + h2.String())
		g.Emit("get " + h.String() + " " + k.String())
		g.Emit("key " + h.String())
	}
}
