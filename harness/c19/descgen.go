package c19

import (
	"strings"

	"verif/harness/core"
	"verif/harness/lat"
	"verif/harness/sx"
)

// Generator of the `descs` / `descx` streams (the structure of the mismatch description).
//
//  1. exhaustive small universe: U1 × U1 (thorough: every pair; quick: every expected type against a sample), every
//     composite of U2 against a sample and against a narrowing of itself — all without user aliases;
//  2. related random pairs (narrowed / widened / copied / unrelated actual types, emphasis on the kinds the describer has its
//     own code for);
//  3. PLANTED mismatches (`descx`): an expected type of the container grammar, an actual type that mirrors it (and is
//     assignable), ONE mutation of the actual type at a random depth — a leaf swapped, a required Struct key dropped, a Struct
//     key added, the size range of an Array or Hash pushed outside, one member of a Variant leaf replaced by a type no member
//     accepts — so that the description is (in most cases exactly) one mismatch of a known kind at a known path;
//  4. a small malformed stream (implementation only).

type pathB []pelem

func (p pathB) with(tag, key string) pathB {
	q := make(pathB, len(p), len(p)+1)
	copy(q, p)
	return append(q, pelem{tag, key})
}

func (p pathB) sexp() string {
	ss := make([]string, len(p))
	for i, e := range p {
		ss[i] = "(" + e.tag + " " + sx.Str(e.key).String() + ")"
	}
	return "(" + strings.Join(ss, " ") + ")"
}

// planted is one way of breaking an assignable mirror: the mutated actual type, the kind and the path of the mismatch the
// describer must report.
type planted struct {
	a    lat.Ty
	kind string
	path pathB
}

type plantGen struct {
	lg *lat.Gen
}

// leaf: an expected leaf, a mirror that it accepts, and a type it rejects (with the kind of mismatch that reports).
func (pg *plantGen) leaf() (e, ok, bad lat.Ty, kind string) {
	r := pg.lg.R
	switch r.Intn(9) {
	case 0:
		return lat.Int(0, 5), lat.Int(1, 2), lat.Atom("str"), "tm"
	case 1:
		return lat.Atom("str"), lat.StrVal("a"), lat.Int(1, 1), "tm"
	case 2:
		return lat.Flt(0, 1), lat.Flt(0.5, 0.5), lat.Int(0, 0), "tm"
	case 3:
		return lat.Bool(-1), lat.Bool(1), lat.Atom("undef"), "tm"
	case 4:
		return lat.Enum(false, "a", "b"), lat.StrVal("a"), lat.StrVal("c"), "pm"
	case 5:
		return lat.Pat("^a"), lat.StrVal("ab"), lat.StrVal("b"), "pm"
	case 6:
		return lat.Atom("numeric"), lat.Int(1, 1), lat.Atom("bin"), "tm"
	case 7:
		// a Variant of leaves: every member reports a type mismatch at the same canonical path, they merge into one
		return lat.Var(lat.Int(0, 5), lat.Atom("str")), lat.Int(1, 1), lat.Flt(0, 1), "tm"
	}
	return lat.Opt(lat.Int(0, 5)), lat.Int(1, 1), lat.Atom("str"), "tm"
}

var plantNames = []string{"a", "b", "c", "d"}

// build: an expected type of depth ≤ d, its assignable mirror, and every single mutation of the mirror with its prediction.
func (pg *plantGen) build(d int, path pathB) (e, mirror lat.Ty, ps []planted) {
	r := pg.lg.R
	if d <= 0 || r.Intn(5) == 0 {
		el, ok, bad, kind := pg.leaf()
		return el, ok, []planted{{bad, kind, path}}
	}
	switch r.Intn(6) {
	case 0, 1: // Struct against Struct
		n := 1 + r.Intn(3)
		ems, ams := make([]lat.Member, n), make([]lat.Member, n)
		var subs [][]planted
		for i := 0; i < n; i++ {
			se, sa, sp := pg.build(d-1, path.with("e", plantNames[i]))
			opt := r.Intn(3) == 0
			ems[i], ams[i] = lat.Mem(plantNames[i], opt, se), lat.Mem(plantNames[i], opt, sa)
			subs = append(subs, sp)
		}
		e, mirror = lat.Struct(ems...), lat.Struct(ams...)
		for i, sp := range subs {
			for _, p := range sp {
				ms := append([]lat.Member{}, ams...)
				ms[i] = lat.Mem(ams[i].Name, ams[i].Opt, p.a)
				ps = append(ps, planted{lat.Struct(ms...), p.kind, p.path})
			}
			if !ems[i].Opt { // a required key dropped
				ms := append(append([]lat.Member{}, ams[:i]...), ams[i+1:]...)
				ps = append(ps, planted{lat.Struct(ms...), "mk", path})
			}
		}
		extra := append(append([]lat.Member{}, ams...), lat.Mem("z", false, lat.Int(1, 1)))
		ps = append(ps, planted{lat.Struct(extra...), "xk", path})
		return
	case 2: // Hash[String, V] against a Struct: entries
		se, sa, sp := pg.build(d-1, path.with("e", "a"))
		sb := sa
		e = lat.Hash(lat.Atom("str"), se, 0, 5)
		mirror = lat.Struct(lat.Mem("a", false, sa), lat.Mem("b", false, sb))
		for _, p := range sp {
			ps = append(ps, planted{lat.Struct(lat.Mem("a", false, p.a), lat.Mem("b", false, sb)), p.kind, p.path})
		}
		// six members: the size range [6,6] is outside [0,5]
		var six []lat.Member
		for _, n := range []string{"a", "b", "c", "d", "e", "f"} {
			six = append(six, lat.Mem(n, false, sa))
		}
		ps = append(ps, planted{lat.Struct(six...), "sz", path})
		return
	case 3: // Array[T] against a Tuple: slots
		se, sa, sp := pg.build(d-1, path.with("i", "1"))
		e = lat.Arr(se, 0, 3)
		mirror = lat.Tup([]lat.Ty{sa, sa})
		for _, p := range sp {
			ps = append(ps, planted{lat.Tup([]lat.Ty{sa, p.a}), p.kind, p.path})
		}
		ps = append(ps, planted{lat.Tup([]lat.Ty{sa, sa, sa, sa}), "sz", path})
		return
	case 4: // Array[T] against an Array: no descent, the size range pushed outside or the element type replaced
		el, ok, bad, _ := pg.leaf()
		e = lat.Arr(el, 1, 3)
		mirror = lat.Arr(ok, 1, 2)
		ps = append(ps, planted{lat.Arr(ok, 1, 4), "sz", path}, planted{lat.Arr(ok, 0, 2), "sz", path}, planted{lat.Arr(bad, 1, 2), "tm", path})
		return
	}
	// Hash against a Hash
	el, ok, bad, _ := pg.leaf()
	e = lat.Hash(lat.Atom("str"), el, 0, 3)
	mirror = lat.Hash(lat.StrVal("a"), ok, 1, 2)
	ps = append(ps, planted{lat.Hash(lat.StrVal("a"), ok, 1, 4), "sz", path}, planted{lat.Hash(lat.StrVal("a"), bad, 1, 2), "tm", path},
		planted{lat.Hash(lat.Int(1, 1), ok, 1, 2), "tm", path})
	return
}

// wrapAliases puts up to n alias wrappers at random nodes of t.
func wrapAliases(g *core.G, t lat.Ty, n int) lat.Ty {
	var walk func(t lat.Ty) lat.Ty
	walk = func(t lat.Ty) lat.Ty {
		r := t
		if len(t.Ts) > 0 {
			r.Ts = make([]lat.Ty, len(t.Ts))
			for i, k := range t.Ts {
				r.Ts[i] = walk(k)
			}
		}
		if len(t.Ms) > 0 {
			r.Ms = make([]lat.Member, len(t.Ms))
			for i, m := range t.Ms {
				r.Ms[i] = lat.Member{Name: m.Name, Opt: m.Opt, T: walk(m.T)}
			}
		}
		if n > 0 && g.Rng.Intn(4) == 0 {
			n--
			return lat.Alias(r)
		}
		return r
	}
	return walk(t)
}

func genDescs(g *core.G, lg *lat.Gen) {
	u1, u2 := lat.Universe(1), lat.Universe(2)
	pick := func(ts []lat.Ty) lat.Ty { return ts[g.Rng.Intn(len(ts))] }
	s := func(t lat.Ty) string { return t.String() }
	lg.Alias = false

	// ---- (1) the exhaustive small universe
	if g.Thorough() {
		for _, e := range u1 {
			for _, a := range u1 {
				g.Emit("descs " + s(e) + " " + s(a))
			}
		}
	} else {
		for _, e := range u1 {
			for i := 0; i < 20; i++ {
				g.Emit("descs " + s(e) + " " + s(pick(u1)))
			}
		}
	}
	for _, e := range u2[len(u1):] {
		g.Emit("descs " + s(e) + " " + s(pick(u2)))
		g.Emit("descs " + s(e) + " " + s(lg.Narrow(e)))
		g.Emit("descs " + s(e) + " " + s(lg.Widen(e)))
	}

	// ---- (2) related random pairs
	for i := 0; i < 12000*g.Scale; i++ {
		var e lat.Ty
		if i%2 == 0 {
			e = lat.StripAlias(emph(lg, 1+g.Rng.Intn(3)))
		} else {
			e = lg.Ty(1 + g.Rng.Intn(4))
		}
		var a lat.Ty
		switch k := g.Rng.Intn(10); {
		case k < 3:
			a = lg.Narrow(e)
		case k < 6:
			a = lg.Widen(e)
		case k < 7:
			if m, ok := lg.SwapOne(e); ok {
				a = m
			} else {
				a = lg.Widen(e)
			}
		case k < 8:
			a = lat.StripAlias(emph(lg, 1+g.Rng.Intn(2)))
		default:
			a = lg.Ty(1 + g.Rng.Intn(3))
		}
		g.Emit("descs " + s(e) + " " + s(a))
		if i%4 == 0 {
			g.Emit("descs " + s(a) + " " + s(e))
		}
	}

	// ---- (3) planted mismatches: one mutation of an assignable mirror
	pg := &plantGen{lg: lg}
	for i := 0; i < 2500*g.Scale; i++ {
		e, mirror, ps := pg.build(1+g.Rng.Intn(3), nil)
		if i%10 == 0 {
			g.Emit("descs " + s(e) + " " + s(mirror)) // the mirror itself: assignable, nothing to describe
		}
		for k := 0; k < 3 && len(ps) > 0; k++ {
			p := ps[g.Rng.Intn(len(ps))]
			g.Emit("descx " + s(e) + " " + s(p.a) + " " + p.kind + " " + p.path.sexp())
		}
	}
	// a Tuple against a Tuple of the same length with one slot replaced: the describer only looks at the positions beyond the
	// expected length, nothing is established and the fallback reports the two types at the root
	for i := 0; i < 200*g.Scale; i++ {
		n := 1 + g.Rng.Intn(3)
		es, as := make([]lat.Ty, n), make([]lat.Ty, n)
		k := g.Rng.Intn(n)
		for j := range es {
			el, ok, bad, _ := pg.leaf()
			es[j], as[j] = el, ok
			if j == k {
				as[j] = bad
			}
		}
		g.Emit("descx " + s(lat.Tup(es)) + " " + s(lat.Tup(as)) + " tm ()")
		g.Emit("descx " + s(lat.Struct(lat.Mem("a", false, lat.Tup(es)))) + " " + s(lat.Struct(lat.Mem("a", false, lat.Tup(as)))) + " tm ()")
	}

	// ---- (3a) user aliases (describeTypeAliasType; `original` an alias: the Variant collapse, Optional keeps the alias, no Undef
	// member; an aliased ACTUAL type is "another kind" for every container arm): random alias wrappers in related pairs, and the
	// planted pairs with an alias around the expected type, a part of it, the actual type or a part of it
	wrapSome := func(t lat.Ty) lat.Ty { return wrapAliases(g, t, 3) }
	for i := 0; i < 4000*g.Scale; i++ {
		lg.Alias = true
		var e lat.Ty
		if i%2 == 0 {
			e = emph(lg, 1+g.Rng.Intn(3))
		} else {
			e = lg.Ty(1 + g.Rng.Intn(3))
		}
		var a lat.Ty
		switch g.Rng.Intn(4) {
		case 0:
			a = lg.Narrow(e)
		case 1:
			a = lg.Widen(e)
		case 2:
			a = lat.StripAlias(lg.Widen(e))
		default:
			a = lg.Ty(1 + g.Rng.Intn(2))
		}
		g.Emit("descs " + s(e) + " " + s(a))
		lg.Alias = false
	}
	for i := 0; i < 2500*g.Scale; i++ {
		e, mirror, ps := pg.build(1+g.Rng.Intn(3), nil)
		p := ps[g.Rng.Intn(len(ps))]
		switch g.Rng.Intn(5) {
		case 0:
			g.Emit("descs " + s(lat.Alias(e)) + " " + s(p.a))
		case 1:
			g.Emit("descs " + s(wrapSome(e)) + " " + s(p.a))
		case 2:
			g.Emit("descs " + s(e) + " " + s(wrapSome(p.a)))
		case 3:
			g.Emit("descs " + s(wrapSome(e)) + " " + s(wrapSome(p.a)))
		default:
			g.Emit("descs " + s(wrapSome(e)) + " " + s(wrapSome(mirror)))
		}
		if i%3 == 0 {
			e1, _, p1 := pg.build(1, nil)
			x := p1[g.Rng.Intn(len(p1))]
			ev := []lat.Ty{lat.Alias(lat.Var(e, e1)), lat.Alias(lat.Opt(lat.Var(e, e1))), lat.Opt(lat.Alias(lat.Var(e, e1))), lat.Var(lat.Alias(e), lat.Alias(e1)),
				lat.Var(lat.Alias(e), lat.Alias(e)), lat.Alias(lat.Alias(lat.Var(e1, lat.Atom("str")))), lat.Alias(lat.Atom("data")), lat.Arr(lat.Alias(lat.Var(e, e1)), 0, 5)}[g.Rng.Intn(8)]
			av := []lat.Ty{p.a, x.a, lat.Alias(p.a), lat.Tup([]lat.Ty{p.a, x.a}), lat.Tup([]lat.Ty{lat.Alias(x.a)}), lat.Rx("")}[g.Rng.Intn(6)]
			g.Emit("descs " + s(ev) + " " + s(av))
		}
	}

	// ---- (3b) descriptions with SEVERAL mismatches: two planted mutations side by side, Variants of containers (every member
	// reports below its own `variant` element, merged only when kinds and canonical paths agree), the built-in aliases against
	// collections with members they reject
	for i := 0; i < 1500*g.Scale; i++ {
		e1, _, p1 := pg.build(1+g.Rng.Intn(2), pathB{{"e", "a"}})
		e2, m2, p2 := pg.build(1+g.Rng.Intn(2), pathB{{"e", "b"}})
		x, y := p1[g.Rng.Intn(len(p1))], p2[g.Rng.Intn(len(p2))]
		g.Emit("descx " + s(lat.Struct(lat.Mem("a", false, e1), lat.Mem("b", false, e2))) + " " +
			s(lat.Struct(lat.Mem("a", false, x.a), lat.Mem("b", false, y.a))) + " " + x.kind + " " + x.path.sexp())
		g.Emit("descx " + s(lat.Struct(lat.Mem("a", false, e1), lat.Mem("b", false, e2))) + " " +
			s(lat.Struct(lat.Mem("a", false, x.a), lat.Mem("b", false, y.a))) + " " + y.kind + " " + y.path.sexp())
		// Variants of containers
		var ev lat.Ty
		switch g.Rng.Intn(5) {
		case 0:
			ev = lat.Var(e1, e2)
		case 1:
			ev = lat.Opt(lat.Var(e1, e2))
		case 2:
			ev = lat.Var(e1, lat.Var(e2, lat.Int(0, 5)))
		case 3:
			ev = lat.Var(lat.Opt(e1), lat.NU(e2), e2)
		default:
			ev = lat.Struct(lat.Mem("a", true, lat.Var(e1, e2)), lat.Mem("b", false, lat.Opt(lat.Var(e2, lat.Atom("str")))))
		}
		switch g.Rng.Intn(4) {
		case 0:
			g.Emit("descs " + s(ev) + " " + s(x.a))
		case 1:
			g.Emit("descs " + s(ev) + " " + s(y.a))
		case 2:
			g.Emit("descs " + s(ev) + " " + s(lat.Struct(lat.Mem("a", false, x.a), lat.Mem("b", false, y.a))))
		default:
			g.Emit("descs " + s(ev) + " " + s(m2))
		}
	}
	dataBad := []lat.Ty{lat.Rx(""), lat.Atom("bin"), lat.Sens(lat.Atom("any")), lat.Tspan(0, 5), lat.TypeOf(lat.Atom("any")), lat.Atom("default"), lat.Obj(1)}
	dataOK := []lat.Ty{lat.Int(1, 2), lat.Atom("str"), lat.Atom("undef"), lat.Flt(0, 1), lat.Bool(-1), lat.StrVal("a")}
	for i := 0; i < 600*g.Scale; i++ {
		al := lat.Atom([]string{"data", "rdata", "sdata", "scalar"}[g.Rng.Intn(4)])
		n := 1 + g.Rng.Intn(3)
		ts := make([]lat.Ty, n)
		ms := make([]lat.Member, n)
		for j := range ts {
			if g.Rng.Intn(2) == 0 {
				ts[j] = pick(dataBad)
			} else {
				ts[j] = pick(dataOK)
			}
			if g.Rng.Intn(4) == 0 {
				ts[j] = lat.Tup([]lat.Ty{ts[j], pick(dataBad)})
			}
			ms[j] = lat.Mem(plantNames[j], g.Rng.Intn(3) == 0, ts[j])
		}
		var a lat.Ty
		switch g.Rng.Intn(4) {
		case 0:
			a = lat.Tup(ts)
		case 1:
			a = lat.Struct(ms...)
		case 2:
			a = lat.Arr(ts[0], 0, 3)
		default:
			a = lat.Hash(pick([]lat.Ty{lat.Atom("str"), lat.Int(1, 2)}), ts[0], 0, 3)
		}
		var e lat.Ty
		switch g.Rng.Intn(5) {
		case 0:
			e = al
		case 1:
			e = lat.Opt(al)
		case 2:
			e = lat.Var(al, lat.Rx(""))
		case 3:
			e = lat.Arr(al, 0, 5)
			a = lat.Tup([]lat.Ty{a, ts[0]})
		default:
			e = lat.Struct(lat.Mem("a", false, al), lat.Mem("b", true, lat.Hash(lat.Atom("str"), al, 0, 5)))
			a = lat.Struct(lat.Mem("a", false, a), lat.Mem("b", false, lat.Struct(ms...)))
		}
		g.Emit("descs " + s(e) + " " + s(a))
	}

	// ---- (4) malformed (implementation only)
	odd := []string{"(int 2 1)", "(var str)", "(struct (x f str))", "(arr any 3 1)", "(struct (x27 f str))"}
	for i := 0; i < 100; i++ {
		g.Emit("@descs " + odd[i%len(odd)] + " " + s(lg.Ty(1)))
		g.Emit("@descs " + s(lg.Ty(1)) + " " + odd[(i+1)%len(odd)])
	}
}

// genCallTerms: Callable expectations inside the structure op (describeCallableType is the Callable arm of the model's internalDescribe):
// every pair of a family of Callable forms {parameters} x {return type} x {block type} at the top, the same nested in Optional /
// Variant / Struct / Array-vs-Tuple / alias, Callables against lattice types, and random terms with Callables anywhere (lat.Gen.Call).
func genCallTerms(g *core.G, lg *lat.Gen) {
	tp := func(t lat.Ty) *lat.Ty { return &t }
	str, integer := lat.Atom("str"), lat.Int(lat.MinI, lat.MaxI)
	params := []*lat.Ty{nil, tp(lat.TupSz(nil, 0, 0)), tp(lat.Tup([]lat.Ty{str})), tp(lat.Tup([]lat.Ty{str, integer})), tp(lat.TupSz([]lat.Ty{str}, 1, lat.MaxI)),
		tp(lat.Tup([]lat.Ty{integer})), tp(lat.TupSz([]lat.Ty{str, integer}, 1, 2)), tp(lat.Tup([]lat.Ty{lat.Struct(lat.Mem("a", false, integer))})),
		tp(lat.Tup([]lat.Ty{lat.Var(integer, str)})), tp(lat.TupSz(nil, 0, lat.MaxI))}
	rets := []*lat.Ty{nil, tp(integer), tp(str), tp(lat.Atom("any")), tp(lat.Opt(str))}
	b11 := lat.Call(tp(lat.TupSz(nil, 1, 1)), nil, nil)
	blocks := []*lat.Ty{nil, tp(b11), tp(lat.Opt(b11)), tp(lat.Call(tp(lat.TupSz(nil, 1, 1)), tp(integer), nil)), tp(lat.Opt(lat.Call(tp(lat.Tup([]lat.Ty{str})), nil, nil)))}
	var forms []lat.Ty
	for _, p := range params {
		for _, r := range rets {
			for _, b := range blocks {
				forms = append(forms, lat.Call(p, r, b))
			}
		}
	}
	others := []lat.Ty{integer, lat.Atom("undef"), lat.Atom("any"), lat.Atom("unit"), lat.Var(), lat.Var(integer, str), lat.Opt(str), lat.NU(lat.Atom("unit")),
		lat.Atom("data"), lat.Atom("rdata"), lat.Struct(lat.Mem("a", false, integer)), lat.Tup([]lat.Ty{str}), lat.TypeOf(lat.Atom("any"))}
	nests := []func(e, a lat.Ty) (lat.Ty, lat.Ty){
		func(e, a lat.Ty) (lat.Ty, lat.Ty) { return lat.Opt(e), a },
		func(e, a lat.Ty) (lat.Ty, lat.Ty) { return lat.Var(integer, e), a },
		func(e, a lat.Ty) (lat.Ty, lat.Ty) { return lat.Struct(lat.Mem("cb", false, e)), lat.Struct(lat.Mem("cb", false, a)) },
		func(e, a lat.Ty) (lat.Ty, lat.Ty) { return lat.Struct(lat.Mem("cb", false, e), lat.Mem("n", false, integer)), lat.Struct(lat.Mem("cb", false, a), lat.Mem("n", false, str)) },
		func(e, a lat.Ty) (lat.Ty, lat.Ty) { return lat.Arr(e, 0, lat.MaxI), lat.Tup([]lat.Ty{a}) },
		func(e, a lat.Ty) (lat.Ty, lat.Ty) { return lat.Hash(str, e, 0, lat.MaxI), lat.Struct(lat.Mem("cb", false, a)) },
		func(e, a lat.Ty) (lat.Ty, lat.Ty) { return lat.Alias(e), a },
		func(e, a lat.Ty) (lat.Ty, lat.Ty) { return lat.Var(e, lat.Call(tp(lat.Tup([]lat.Ty{lat.Flt(0, 1)})), tp(lat.Flt(0, 1)), nil)), a },
		func(e, a lat.Ty) (lat.Ty, lat.Ty) { return lat.Tup([]lat.Ty{integer, e}), lat.Arr(a, 2, 2) },
	}
	for i, e := range forms {
		for j, a := range forms {
			if g.Thorough() || (i*7+j)%5 == 0 || i == j {
				g.Emit("descs " + e.String() + " " + a.String())
			}
			if g.Thorough() || (i*11+j)%17 == 0 {
				ne, na := nests[(i+j)%len(nests)](e, a)
				g.Emit("descs " + ne.String() + " " + na.String())
			}
		}
		for _, o := range others {
			g.Emit("descs " + e.String() + " " + o.String())
		}
	}
	lg.Alias, lg.Call = false, true
	for n := 0; n < 3000*g.Scale; n++ {
		e := lg.Ty(1 + g.Rng.Intn(3))
		var a lat.Ty
		switch g.Rng.Intn(4) {
		case 0:
			a = lg.Narrow(e)
		case 1:
			a = lg.Widen(e)
		case 2:
			if m, ok := lg.SwapOne(e); ok {
				a = m
			} else {
				a = lg.Ty(2)
			}
		default:
			a = lg.Ty(1 + g.Rng.Intn(2))
		}
		g.Emit("descs " + e.String() + " " + a.String())
	}
	lg.Call = false
}
