package c19

import (
	"fmt"
	"strings"

	"verif/harness/core"
	"verif/harness/lat"
	"verif/harness/sx"

	"github.com/lyraproj/pcore/px"
	"github.com/lyraproj/pcore/types"
)

// `descc C X` — the description of an actual type X against an expected CALLABLE C (model: lean/Pcore/Model/DescribeCallable.lean:
// describeCallableType with the guard and the fallback of describe), observed through the hook px.VerifDescribe with full payloads.
//
//	C ::= (callable P R B)     P ::= n | a Tuple term (the parameter tuple)     R ::= n | T (the return type)
//	                           B ::= n | (r P R) | (o P R)     the block type Callable[P…, R] / Optional[Callable[P…, R]]
//	X ::= C | T
//	→ empty | fault | ITEM …   a Callable payload is printed `(callable P R B)`, a block type `(callable P R n)` / `(opt (callable P R n))`
//
// Predicates: desc-panic, desc-empty-not-asg / desc-nonempty-asg, desc-no-subject, desc-text-structure-differ, desc-unparsed.

type callT struct {
	live px.Type
	term string
}

func buildParams(env *lat.Env, e sx.Sexp, tags *[]string) (px.Type, string, string) {
	if !e.IsList && e.Atom == "n" {
		return nil, "n", ""
	}
	a, status, _ := env.BuildArg(e, tags)
	if status != "" {
		return nil, "", status
	}
	if a.Ty.K != "tup" {
		return nil, "", "bad-op"
	}
	return a.C, a.Ty.String(), ""
}

func buildRet(env *lat.Env, e sx.Sexp, tags *[]string) (px.Type, string, string) {
	if !e.IsList && e.Atom == "n" {
		return nil, "n", ""
	}
	a, status, _ := env.BuildArg(e, tags)
	if status != "" {
		return nil, "", status
	}
	return a.C, a.Ty.String(), ""
}

// buildCallable builds the live Callable of a (callable P R B) term; status "" = ok, "no" = not a callable term.
func buildCallable(env *lat.Env, e sx.Sexp, tags *[]string) (px.Type, string) {
	if !e.IsList || e.Tag() != "callable" || len(e.List) != 4 {
		return nil, "no"
	}
	p, _, st := buildParams(env, e.List[1], tags)
	if st != "" {
		return nil, st
	}
	r, _, st := buildRet(env, e.List[2], tags)
	if st != "" {
		return nil, st
	}
	var blk px.Type
	if b := e.List[3]; b.IsList {
		if len(b.List) != 3 || (b.List[0].Atom != "r" && b.List[0].Atom != "o") {
			return nil, "bad-op"
		}
		bp, _, st := buildParams(env, b.List[1], tags)
		if st != "" {
			return nil, st
		}
		br, _, st := buildRet(env, b.List[2], tags)
		if st != "" {
			return nil, st
		}
		blk = types.NewCallableType(bp, br, nil)
		if b.List[0].Atom == "o" {
			blk = types.NewOptionalType(blk)
		}
	} else if b.Atom != "n" {
		return nil, "bad-op"
	}
	return types.NewCallableType(p, r, blk), ""
}

// encCallableS prints a live type the way the driver prints the model's payloads.
func encCallableS(t px.Type) (string, error) {
	opt := false
	inner := t
	if ot, ok := t.(*types.OptionalType); ok {
		if _, ok := ot.ContainedType().(*types.CallableType); ok {
			opt, inner = true, ot.ContainedType()
		}
	}
	ct, ok := inner.(*types.CallableType)
	if !ok {
		return encExpS(t)
	}
	part := func(x px.Type) (string, error) {
		if x == nil {
			return "n", nil
		}
		return encAtomS(x)
	}
	ps, err := part(ct.ParametersType())
	if err != nil {
		return "", err
	}
	rs, err := part(ct.ReturnType())
	if err != nil {
		return "", err
	}
	bs := "n"
	if b := ct.BlockType(); b != nil {
		kind := "r"
		if ob, ok := b.(*types.OptionalType); ok {
			kind, b = "o", ob.ContainedType()
		}
		bc, ok := b.(*types.CallableType)
		if !ok {
			return "", fmt.Errorf("a block type that is no Callable")
		}
		bp, err1 := part(bc.ParametersType())
		br, err2 := part(bc.ReturnType())
		if err1 != nil || err2 != nil || bc.BlockType() != nil {
			return "", fmt.Errorf("a block type outside the term language")
		}
		bs = "(" + kind + " " + bp + " " + br + ")"
	}
	s := "(callable " + ps + " " + rs + " " + bs + ")"
	if opt {
		s = "(opt " + s + ")"
	}
	return s, nil
}

func execDescc(c px.Context, args []sx.Sexp) core.Result {
	bad := func(why string) core.Result { return core.Result{Out: "bad-op", Pred: "FAIL harness-bad-op descc " + why} }
	if len(args) != 2 {
		return bad("shape")
	}
	tags := []string{"op:descc"}
	var env *lat.Env
	if f := lat.Safely(func() { env = lat.EnvOf(c) }); f != nil {
		return bad("environment")
	}
	var e, a px.Type
	var st string
	if f := lat.Safely(func() { e, st = buildCallable(env, args[0], &tags) }); f != nil || st == "no" || st == "bad-op" {
		return bad("expected " + st + fmt.Sprint(f))
	}
	if st != "" {
		return core.Result{Out: "unbuildable", Pred: "n/a", Tags: tags}
	}
	if f := lat.Safely(func() { a, st = buildCallable(env, args[1], &tags) }); f != nil || st == "bad-op" {
		return bad("actual " + fmt.Sprint(f))
	}
	if st == "no" {
		x, status, err := env.BuildArg(args[1], &tags)
		if status == "bad-op" {
			return bad(fmt.Sprint(err))
		}
		if status != "" {
			return core.Result{Out: "unbuildable", Pred: "n/a", Tags: tags}
		}
		a, st = x.C, ""
		tags = append(tags, "cact:"+lat.Head(x.Ty))
	} else if st != "" {
		return core.Result{Out: "unbuildable", Pred: "n/a", Tags: tags}
	} else {
		tags = append(tags, "cact:callable")
	}
	subjectKey := "function " + descSubject + ":"
	var vms []px.VerifMismatch
	var text string
	if f := lat.Safely(func() { vms = px.VerifDescribe(descSubject, e, a); text = px.DescribeMismatch(descSubject, e, a) }); f != nil {
		return core.Result{Out: "fault", Pred: "FAIL desc-panic " + firstLine(fmt.Sprint(f)), NonTrivial: true, Tags: tags}
	}
	// the structured items, Callable payloads included
	var items []ditem
	for _, m := range vms {
		d := ditem{full: true, kind: classTag[m.Class], key: m.Key}
		if d.kind == "" {
			return core.Result{Out: "unmodelled", Pred: "FAIL enc-unmodelled mismatch class " + m.Class, NonTrivial: true, Tags: tags}
		}
		for _, pe := range m.Path {
			tag, ok := pathTag[pe.Type]
			if !ok {
				return core.Result{Out: "unmodelled", Pred: "FAIL enc-unmodelled path type " + pe.Type, NonTrivial: true, Tags: tags}
			}
			d.path = append(d.path, pelem{tag, pe.Key})
		}
		switch d.kind {
		case "tm", "pm":
			var err1, err2 error
			d.expS, err1 = encCallableS(m.Expected)
			d.actS, err2 = encCallableS(m.Actual)
			if err1 != nil || err2 != nil {
				return core.Result{Out: "unmodelled", Pred: "FAIL enc-unmodelled a mismatch carries a type outside the term language", NonTrivial: true, Tags: tags}
			}
		case "sz", "cnt":
			ei, ok1 := m.Expected.(*types.IntegerType)
			ai, ok2 := m.Actual.(*types.IntegerType)
			if !ok1 || !ok2 {
				return core.Result{Out: "unmodelled", Pred: "FAIL enc-unmodelled size payload", NonTrivial: true, Tags: tags}
			}
			d.r = [4]int64{ei.Min(), ei.Max(), ai.Min(), ai.Max()}
		}
		items = append(items, d)
		tags = append(tags, "ckind2:"+d.kind)
		if n := len(d.path); n > 1 {
			tags = append(tags, "clast2:"+d.path[n-1].tag)
		}
	}
	sortRuns(items)
	out := renderItems(items)
	res := func(pred string) core.Result { return core.Result{Out: out, Pred: pred, NonTrivial: true, Tags: tags} }
	ds, badLine := parseDescription(text, subjectKey)
	if badLine != "" {
		return res("FAIL desc-unparsed the harness cannot read the structure of: " + firstLine(badLine))
	}
	if why := agree(items, ds); why != "" {
		return res("FAIL desc-text-structure-differ " + why)
	}
	asg, f := lat.SafeAsg(e, a)
	if f != nil {
		return res("FAIL panic IsAssignable")
	}
	switch {
	case len(items) == 0 && !asg:
		return res("FAIL desc-empty-not-asg-callable nothing to describe although the actual type is not assignable")
	case len(items) != 0 && asg:
		return res("FAIL desc-nonempty-asg-callable a mismatch is described although the actual type is assignable: " + firstLine(out))
	}
	for _, d := range items {
		if len(d.path) == 0 || d.path[0] != (pelem{"s", subjectKey}) {
			return res("FAIL desc-no-subject-callable " + d.String())
		}
	}
	return res("ok")
}

func genDescc(g *core.G, lg *lat.Gen) {
	str, integer := lat.Atom("str"), lat.Int(lat.MinI, lat.MaxI)
	params := []string{"n", lat.TupSz(nil, 0, 0).String(), lat.Tup([]lat.Ty{str}).String(), lat.Tup([]lat.Ty{str, integer}).String(),
		lat.TupSz([]lat.Ty{str}, 1, lat.MaxI).String(), lat.Tup([]lat.Ty{integer}).String(), lat.TupSz([]lat.Ty{str, integer}, 1, 2).String(),
		lat.Tup([]lat.Ty{lat.Struct(lat.Mem("a", false, integer))}).String(), lat.Tup([]lat.Ty{lat.Var(integer, str)}).String(), lat.TupSz(nil, 0, lat.MaxI).String()}
	rets := []string{"n", integer.String(), str.String(), "any", lat.Opt(str).String()}
	b11 := lat.TupSz(nil, 1, 1).String()
	blocks := []string{"n", "(r " + b11 + " n)", "(o " + b11 + " n)", "(r " + b11 + " " + integer.String() + ")", "(o " + lat.Tup([]lat.Ty{str}).String() + " n)"}
	var forms []string
	for _, p := range params {
		for _, r := range rets {
			for _, b := range blocks {
				forms = append(forms, "(callable "+p+" "+r+" "+b+")")
			}
		}
	}
	others := []lat.Ty{integer, lat.Atom("undef"), lat.Atom("any"), lat.Atom("unit"), lat.Var(), lat.Var(integer, str), lat.Opt(str), lat.NU(lat.Atom("unit")),
		lat.Atom("data"), lat.Atom("rdata"), lat.Struct(lat.Mem("a", false, integer)), lat.Tup([]lat.Ty{str}), lat.TypeOf(lat.Atom("any"))}
	for i, e := range forms {
		for j, a := range forms {
			if g.Thorough() || (i*7+j)%5 == 0 || i == j {
				g.Emit("descc " + e + " " + a)
			}
		}
		for _, o := range others {
			g.Emit("descc " + e + " " + o.String())
		}
	}
	// random parameter types
	lg.Alias = false
	for n := 0; n < 1500*g.Scale; n++ {
		mk := func() string {
			k := g.Rng.Intn(3)
			ts := make([]lat.Ty, k)
			for i := range ts {
				ts[i] = lg.Ty(1)
			}
			p := "n"
			if g.Rng.Intn(6) != 0 {
				p = lat.Tup(ts).String()
			}
			return "(callable " + p + " " + rets[g.Rng.Intn(len(rets))] + " " + blocks[g.Rng.Intn(len(blocks))] + ")"
		}
		g.Emit("descc " + mk() + " " + mk())
	}
	_ = strings.Join
}
