// Package c19: type-mismatch reporting is total and agrees with the lattice (property C19).
//
// ops (model + implementation, syntax in harness/lat/doc.go):
//
//	desc E A       empty|nonempty|fault          px.DescribeMismatch("x", E, A) == ""
//	assert T V     ok|reported <CODE>|fault      px.AssertInstance("x", T, V)
//	descs E A      the STRUCTURE of the description: one item (kind, path, payload) per reported mismatch — see descs.go
//	descx E A K P  the same, with the mismatch the generator planted (kind K at path P)
//
// Predicates on the implementation: no panic; the description is empty exactly when px.IsAssignable(E, A); a non-empty
// description names the subject it was given (evaluated a second time with the distinctive subject lat.Subject);
// AssertInstance raises a reported PCORE_TYPE_MISMATCH exactly when ¬px.IsInstance(T, V); px.DetailedValueType(V) never fails.
//
// '@' lines (implementation only): malformed terms, second-tier tests `t2-desc`, `t2-assert`.
package c19

import (
	"fmt"
	"strings"

	"verif/harness/core"
	"verif/harness/lat"
	"verif/harness/sx"

	"github.com/lyraproj/pcore/px"
)

func init() {
	core.Register(&core.Prop{
		ID: "C19",
		Rule: "distinct op lines; `desc`: non-trivial when the description is non-empty or an argument is not a nullary type; " +
			"`assert`: when T is not a nullary type",
		Gen:  gen,
		Exec: exec,
	})
}

func exec(c px.Context, op string, args []sx.Sexp) core.Result {
	if res, ok := lat.ExecTier2(c, op, args); ok {
		return res
	}
	if op == "sigs" {
		return execSigs(c, args)
	}
	if op == "sigd" {
		return execSigd(c, args)
	}
	if op == "cdesc" {
		return execCdesc(c, args)
	}
	if op == "tassert" {
		return execTassert(c, args)
	}
	if op == "cassert" {
		return execCassert(c, args)
	}
	if op == "descs" || op == "descx" {
		return execDescs(c, op, args)
	}
	if op != "desc" && op != "assert" {
		return core.Result{Out: "bad-op", Pred: "FAIL harness-bad-op " + op}
	}
	r := lat.Exec(c, op, args)
	if res, ok := r.Generic(); ok {
		return res
	}
	if op == "desc" {
		if r.Status == "fault" {
			return r.Fault("desc-panic")
		}
		e, a := r.A[0], r.A[1]
		nt := r.Out == "nonempty" || !lat.Nullary(e.Ty) || !lat.Nullary(a.Ty)
		asg, f := lat.SafeAsg(e.C, a.C)
		if f != nil {
			return r.Result("FAIL panic IsAssignable", true)
		}
		var text string
		if f := lat.Safely(func() { text = px.DescribeMismatch(lat.Subject, e.C, a.C) }); f != nil {
			return r.Result("FAIL desc-panic "+fmt.Sprint(f), true)
		}
		switch {
		case (text == "") != (r.Out == "empty"):
			return r.Result("FAIL desc-unstable emptiness depends on the subject name", true)
		case text == "" && !asg:
			return r.Result("FAIL desc-empty-not-asg-"+lat.Head(e.Ty)+" nothing to describe although the actual type is not assignable", true)
		case text != "" && asg:
			return r.Result("FAIL desc-nonempty-asg-"+lat.Head(e.Ty)+" a mismatch is described although the actual type is assignable: "+firstLine(text), true)
		case text != "" && !strings.Contains(text, lat.Subject):
			return r.Result("FAIL desc-no-subject-"+lat.Head(e.Ty)+" the description does not name its subject: "+firstLine(text), true)
		}
		return r.Result("ok", nt)
	}
	// assert
	t, lv := r.A[0], r.LV[0]
	if f := lat.Safely(func() { px.DetailedValueType(lv) }); f != nil {
		return r.Result("FAIL dvt-panic "+firstLine(fmt.Sprint(f)), true)
	}
	inst, f := lat.SafeInst(t.C, lv)
	if f != nil {
		return r.Result("FAIL panic IsInstance", true)
	}
	mismatch := "reported " + string(px.TypeMismatch)
	switch {
	case r.Out == "ok" && !inst:
		return r.Result("FAIL assert-silent-on-noninstance", true)
	case r.Out == mismatch && inst:
		return r.Result("FAIL assert-raises-on-instance", true)
	case r.Out != "ok" && r.Out != mismatch:
		return r.Result("FAIL assert-fault "+r.Out+" "+firstLine(r.Detail), true)
	}
	return r.Result("ok", !lat.Nullary(t.Ty))
}

func firstLine(s string) string {
	if i := strings.IndexByte(s, '\n'); i >= 0 {
		s = s[:i]
	}
	if len(s) > 160 {
		s = s[:160]
	}
	return s
}

// emph builds an expected type of the kinds the describer has its own code for: variants, optionals, aliases, nested
// structs and tuples, the empty variant.
func emph(lg *lat.Gen, d int) lat.Ty {
	sub := func() lat.Ty {
		if d <= 0 {
			return lg.Leaf()
		}
		if lg.R.Intn(3) == 0 {
			return emph(lg, d-1)
		}
		return lg.Ty(d - 1)
	}
	switch lg.R.Intn(10) {
	case 0:
		return lat.Var(sub(), sub())
	case 1:
		return lat.Var(sub(), sub(), sub())
	case 2:
		return lat.Opt(sub())
	case 3:
		return lat.Alias(sub())
	case 4:
		return lat.Alias(lat.Var(sub(), lat.Alias(sub())))
	case 5:
		return lat.Struct(lat.Mem("a", false, sub()), lat.Mem("b", lg.R.Intn(2) == 0, sub()))
	case 6:
		return lat.Struct(lat.Mem("a", lg.R.Intn(2) == 0, lat.Struct(lat.Mem("b", false, sub()))))
	case 7:
		return lat.Tup([]lat.Ty{sub(), sub()})
	case 8:
		return lat.TupSz([]lat.Ty{sub(), lat.Tup([]lat.Ty{sub()})}, 1, 3)
	}
	return lat.Var()
}

// oddHash: hashes with the empty string or a non-string as key (the detailed type is then not a Struct).
func oddHash(lg *lat.Gen) lat.Val {
	es := []lat.Entry{}
	switch lg.R.Intn(4) {
	case 0:
		es = append(es, lat.Entry{K: lat.VS(""), V: lg.Val(1)})
	case 1:
		es = append(es, lat.Entry{K: lat.VI(1), V: lg.Val(1)})
	case 2:
		es = append(es, lat.Entry{K: lat.VS("a"), V: lg.Val(1)}, lat.Entry{K: lat.VS(""), V: lat.VUndef})
	default:
		es = append(es, lat.Entry{K: lat.VUndef, V: lg.Val(1)}, lat.Entry{K: lat.VS("a"), V: lat.VI(1)})
	}
	if lg.R.Intn(2) == 0 {
		es = append(es, lat.Entry{K: lat.VS("b"), V: lg.Val(1)})
	}
	return lat.VH(es...)
}

var hostileKeys = []string{"", " ", "  ", "\t", "\t ", " \n ", "\n", "\r\n", " a", "a ", "a b", "'", "\"", "a'b", "::", "A::B", "::a", "é", "日本", " é ",
	"Optional[a]", "Optional['a']", "NotUndef[a]", "String[1]", "undef", "default", "0", "-1", "a\x00b", "\u00a0", "\u2003", "{", "=>", "#", "$a",
	strings.Repeat("k", 300), strings.Repeat(" ", 40)}

func genHostileKeys(g *core.G) {
	intAll := lat.Int(lat.MinI, lat.MaxI)
	str := lat.Atom("str")
	expected := []lat.Ty{
		lat.Hash(str, str, 0, lat.MaxI), lat.Hash(str, intAll, 0, lat.MaxI), lat.Hash(lat.StrSz(1, lat.MaxI), lat.Atom("any"), 0, lat.MaxI),
		lat.Hash(lat.StrSz(0, 1), intAll, 0, 1), lat.Struct(lat.Mem("a", false, intAll)), lat.Struct(), intAll, lat.Atom("data"), lat.Atom("rdata"),
		lat.Arr(lat.Hash(str, str, 0, lat.MaxI), 0, lat.MaxI), lat.Arr(intAll, 0, lat.MaxI), lat.Var(intAll, lat.Hash(str, str, 0, lat.MaxI)),
		lat.Opt(lat.Hash(str, lat.Hash(str, str, 0, lat.MaxI), 0, lat.MaxI)), lat.Atom("any"), lat.Coll(0, 1), lat.Iter(lat.Tup([]lat.Ty{str, intAll})),
		lat.Hash(lat.Enum(false, "a", " "), intAll, 0, lat.MaxI), lat.Tup([]lat.Ty{lat.Hash(str, str, 0, lat.MaxI)}),
	}
	n := 0
	for i, k := range hostileKeys {
		one := lat.VH(lat.Entry{K: lat.VS(k), V: lat.VI(1)})
		shapes := []lat.Val{
			one,
			lat.VH(lat.Entry{K: lat.VS("a"), V: lat.VI(1)}, lat.Entry{K: lat.VS(k + "x"), V: lat.VS("v")}, lat.Entry{K: lat.VS(k), V: lat.VUndef}),
			lat.VH(lat.Entry{K: lat.VS("a"), V: one}),
			lat.VA(one),
			lat.VA(lat.VI(1), lat.VH(lat.Entry{K: lat.VS("b"), V: lat.VA(one)})),
			lat.VH(lat.Entry{K: lat.VS(k), V: lat.VH(lat.Entry{K: lat.VS(k), V: lat.VS("v")})}),
			lat.VSens(one),
		}
		for j, v := range shapes {
			for m, t := range expected {
				if g.Thorough() || (i+j+m)%3 == 0 {
					g.Emit("assert " + t.String() + " " + v.String())
					n++
				}
			}
		}
		// the Struct whose member is that very key
		if k != "" {
			g.Emit("assert " + lat.Struct(lat.Mem(k, false, str)).String() + " " + one.String())
			g.Emit("assert " + lat.Struct(lat.Mem(k, true, intAll)).String() + " " + one.String())
		}
	}
}

func gen(g *core.G) {
	lg := &lat.Gen{R: g.Rng}
	u1, u2 := lat.Universe(1), lat.Universe(2)
	vals := lat.ValUniverse()
	pick := func(ts []lat.Ty) lat.Ty { return ts[g.Rng.Intn(len(ts))] }
	s := func(t lat.Ty) string { return t.String() }

	// ---- (1) the exhaustive small universe -------------------------------------------------------------------
	if g.Thorough() {
		for _, e := range u1 {
			for _, a := range u1 {
				g.Emit("desc " + s(e) + " " + s(a))
			}
		}
	} else {
		for _, e := range u1 {
			for i := 0; i < 14; i++ {
				g.Emit("desc " + s(e) + " " + s(pick(u1)))
			}
		}
	}
	for _, e := range u2[len(u1):] {
		g.Emit("desc " + s(e) + " " + s(pick(u2)))
		g.Emit("desc " + s(e) + " " + s(lg.Narrow(e)))
	}
	for _, t := range u1 {
		for _, v := range vals {
			if g.Thorough() || g.Rng.Intn(len(vals)) < 8 {
				g.Emit("assert " + s(t) + " " + v.String())
			}
		}
	}

	// ---- (2) structured random cases: related pairs, emphasis on what the describer treats specially ---------
	for i := 0; i < 8000*g.Scale; i++ {
		lg.Alias = i%3 == 0
		var e lat.Ty
		if i%2 == 0 {
			e = emph(lg, 1+g.Rng.Intn(3))
		} else {
			e = lg.Ty(1 + g.Rng.Intn(4))
		}
		var a lat.Ty
		switch k := g.Rng.Intn(10); {
		case k < 4:
			a = lg.Narrow(e)
		case k < 6:
			a = lg.Widen(e)
		case k < 7:
			a = e
		case k < 8:
			a = emph(lg, 1+g.Rng.Intn(2))
		default:
			a = lg.Ty(1 + g.Rng.Intn(3))
		}
		g.Emit("desc " + s(e) + " " + s(a))
		if i%3 == 0 {
			g.Emit("desc " + s(a) + " " + s(e))
		}
	}
	for i := 0; i < 6500*g.Scale; i++ {
		lg.Alias = i%3 == 0
		var t lat.Ty
		if i%2 == 0 {
			t = emph(lg, 1+g.Rng.Intn(3))
		} else {
			t = lg.Ty(1 + g.Rng.Intn(3))
		}
		w, ok := lg.Witness(t)
		if !ok {
			w = lg.Val(2)
		}
		g.Emit("assert " + s(t) + " " + w.String())
		g.Emit("assert " + s(t) + " " + lg.MutateVal(w).String())
		if i%6 == 0 {
			g.Emit("assert " + s(t) + " " + oddHash(lg).String())
		}
	}

	// ---- (2'') hostile hash KEYS: the detailed type needed for the message turns a hash with string keys into a Struct, whose
	// constructor validates every key (empty, blank, control characters, quotes, '::', non-ASCII, long, look-alikes of type
	// syntax) — at top level and nested in hashes / arrays, against several expected types
	genHostileKeys(g)

	// ---- (2') the recursion guard of aliases: one alias object meeting the same part twice ----------------------------
	for _, gc := range lg.GuardCases(200 * g.Scale) {
		g.Emit("desc " + s(gc.A) + " " + s(gc.B))
		g.Emit("assert " + s(gc.A) + " " + gc.V.String())
	}

	// ---- (3) malformed stream (implementation only) ----------------------------------------------------------------
	odd := []string{"(int 2 1)", "(var str)", "(struct (x f str))", "(obj 3)", "(enum t x41)", "(arr any 3 1)"}
	for i := 0; i < 200; i++ {
		x := odd[i%len(odd)]
		g.Emit("@desc " + x + " " + s(lg.Ty(1)))
		g.Emit("@assert " + x + " " + lg.Val(1).String())
	}
	genSigs(g, lg)
	genDescs(g, lg)
	genCallable(g)
	genSigd(g, lg)
	genCallTerms(g, lg)
	lat.GenTier2(g.Emit, g.Rng, "C19")
}
