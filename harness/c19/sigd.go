package c19

import (
	"fmt"
	"io"
	"strings"

	"verif/harness/core"
	"verif/harness/lat"
	"verif/harness/sx"

	"github.com/lyraproj/pcore/px"
	"github.com/lyraproj/pcore/types"
)

// `sigd (SIG*) ARGS` — the STRUCTURE of px.DescribeSignatures(signatures, ARGS, nil) (model: lean/Pcore/Model/DescribeSig.lean).
//
//	SIG  ::= ((T*) LO HI BLK) | nilparams      a Callable with the parameter tuple Tuple[T…, LO, HI] and BLK ::= n | r | o
//	                                           (no block type / Callable[1, 1] / Optional[Callable[1, 1]]); `nilparams` = the default Callable
//	ARGS ::= a type term (the detailed type of the arguments: a Tuple; an Array is accepted as well)
//	→ fault | empty | single ITEM | list (ITEM*) (ITEM*) …      ITEM as in descs.go, without subject element
//
// The structure is read back from the text: one mismatch alone is printed as formatMismatch prints it; otherwise
// `expects (SIGNATURE)` / `expects one of:` + `  (SIGNATURE)` lines, each followed by its `rejected:` lines.
// Predicates: sigd-fault (a panic although the call respects the contract: ARGS is a Tuple or Array type whose declared types fit
// its size, every signature has a parameter tuple with at least one type or takes no argument), sigd-unparsed, sigd-silent (no
// signature accepts ARGS but nothing is rejected).  Contract breaches (`n/a`): they are kept in the stream because the model
// has the same faults as explicit results (SFault.nilSize, nilParams, paramIndex).

// blockLambda: a px.Lambda that is nothing but its signature (describeSignatureBlock only asks `aBlock.Signature()`,
// CallableWith `block.PType()`); the code that describes it is the real one.
type blockLambda struct{ sig *types.CallableType }

func (l *blockLambda) String() string                                        { return "lambda" }
func (l *blockLambda) Equals(o interface{}, g px.Guard) bool                  { return l == o }
func (l *blockLambda) ToString(b io.Writer, s px.FormatContext, g px.RDetect) { _, _ = io.WriteString(b, "lambda") }
func (l *blockLambda) PType() px.Type                                         { return l.sig }
func (l *blockLambda) Call(c px.Context, block px.Lambda, args ...px.Value) px.Value { return px.Undef }
func (l *blockLambda) Parameters() []px.Parameter                             { return nil }
func (l *blockLambda) Signature() px.Signature                                { return l.sig }

func parseItem(line string) (ditem, bool) {
	var d ditem
	if !strings.HasPrefix(line, " ") {
		return d, parseMessage(&d, line)
	}
	// reuse the path reader of parseDescLine with an empty subject
	it, ok := parseDescLine(" "+line, "")
	if !ok {
		return d, false
	}
	it.path = it.path[1:]
	return it, true
}

func parseSignaturesText(text string) (string, string) {
	if text == "" {
		return "empty", ""
	}
	lines := strings.Split(text, "\n")
	render := func(groups [][]ditem) string {
		var sb strings.Builder
		sb.WriteString("list")
		for _, g := range groups {
			sortRuns(g)
			ss := make([]string, len(g))
			for i, d := range g {
				ss[i] = d.String()
			}
			sb.WriteString(" (" + strings.Join(ss, " ") + ")")
		}
		return sb.String()
	}
	switch {
	case lines[0] == "expects one of:":
		var groups [][]ditem
		for _, l := range lines[1:] {
			switch {
			case strings.HasPrefix(l, "    rejected:"):
				if len(groups) == 0 {
					return "", l
				}
				d, ok := parseItem(l[len("    rejected:"):])
				if !ok {
					return "", l
				}
				groups[len(groups)-1] = append(groups[len(groups)-1], d)
			case strings.HasPrefix(l, "  ("):
				groups = append(groups, nil)
			default:
				return "", l
			}
		}
		return render(groups), ""
	case strings.HasPrefix(lines[0], "expects ("):
		var g []ditem
		for _, l := range lines[1:] {
			if !strings.HasPrefix(l, "  rejected:") {
				return "", l
			}
			d, ok := parseItem(l[len("  rejected:"):])
			if !ok {
				return "", l
			}
			g = append(g, d)
		}
		return render([][]ditem{g}), ""
	}
	if len(lines) != 1 {
		return "", lines[0]
	}
	d, ok := parseItem(lines[0])
	if !ok {
		return "", lines[0]
	}
	return "single " + d.String(), ""
}

func execSigd(c px.Context, args []sx.Sexp) core.Result {
	bad := func(why string) core.Result { return core.Result{Out: "bad-op", Pred: "FAIL harness-bad-op sigd " + why} }
	if (len(args) != 2 && len(args) != 3) || !args[0].IsList {
		return bad("shape")
	}
	if sexpHasAlias(args[0]) || sexpHasAlias(args[1]) {
		return core.Result{Out: "alias", Pred: "n/a"}
	}
	tags := []string{"op:sigd"}
	var env *lat.Env
	if f := lat.Safely(func() { env = lat.EnvOf(c) }); f != nil {
		return bad("environment")
	}
	breach := false
	unsafe := false
	var sigs []px.Signature
	var tuples []*types.TupleType
	var blocks []px.Type
	for _, s := range args[0].List {
		if !s.IsList && s.Atom == "nilparams" {
			sigs = append(sigs, types.DefaultCallableType())
			tuples, blocks = append(tuples, nil), append(blocks, nil)
			breach = true
			continue
		}
		if !s.IsList || len(s.List) != 4 || !s.List[0].IsList {
			return bad("signature")
		}
		var tys []px.Type
		for _, te := range s.List[0].List {
			a, status, err := env.BuildArg(te, &tags)
			if status == "bad-op" {
				return bad(fmt.Sprint(err))
			}
			if status != "" {
				return core.Result{Out: "unbuildable", Pred: "n/a", Tags: tags}
			}
			unsafe = unsafe || unsafeKeys(a.Ty)
			tys = append(tys, a.C)
		}
		lo, err1 := s.List[1].AsInt()
		hi, err2 := s.List[2].AsInt()
		if err1 != nil || err2 != nil || lo < 0 || hi < lo {
			return bad("size")
		}
		var blk px.Type
		var pt *types.TupleType
		if f := lat.Safely(func() {
			switch s.List[3].Atom {
			case "r":
				blk = c.ParseType("Callable[1, 1]")
			case "o":
				blk = c.ParseType("Optional[Callable[1, 1]]")
			}
			pt = types.NewTupleType(tys, types.NewIntegerType(lo, hi))
		}); f != nil {
			return bad(fmt.Sprint(f))
		}
		if len(tys) == 0 && hi > 0 {
			breach = true // a parameter tuple that takes arguments but declares no type: eTypes[-1]
		}
		sigs = append(sigs, types.NewCallableType(pt, nil, blk))
		tuples, blocks = append(tuples, pt), append(blocks, blk)
		tags = append(tags, "sblk:"+s.List[3].Atom)
	}
	a, status, err := env.BuildArg(args[1], &tags)
	if status == "bad-op" {
		return bad(fmt.Sprint(err))
	}
	if status != "" {
		return core.Result{Out: "unbuildable", Pred: "n/a", Tags: tags}
	}
	if unsafe || unsafeKeys(a.Ty) {
		return core.Result{Out: "unsafe-key", Pred: "n/a", Tags: tags}
	}
	switch a.Ty.K {
	case "tup":
		if lo, hi, _ := sizeOfT(a.Ty); int64(len(a.Ty.Ts)) > hi || lo > hi {
			breach = true // more declared types than the tuple can have elements
		}
	case "arr":
		if a.Ty.Lo > 64 {
			return core.Result{Out: "unbuildable", Pred: "n/a", Tags: tags} // describeSignatureArguments allocates Min() argument types
		}
	default:
		breach = true // not the type of an argument list: aSize stays nil
	}
	tags = append(tags, fmt.Sprintf("nsig:%d", len(sigs)), "args:"+a.Ty.K)
	// the block handed to the call: its signature as a (callable P R B) term, or n
	var block px.Lambda
	if len(args) == 3 && (args[2].IsList || args[2].Atom != "n") {
		b, status, err := env.BuildArg(args[2], &tags)
		if status == "bad-op" {
			return bad("block " + fmt.Sprint(err))
		}
		if status != "" {
			return core.Result{Out: "unbuildable", Pred: "n/a", Tags: tags}
		}
		ct, ok := b.C.(*types.CallableType)
		if !ok {
			return bad("the block's signature is no Callable term")
		}
		block = &blockLambda{ct}
		tags = append(tags, "sblock:given")
	}
	var text string
	if f := lat.Safely(func() { text = px.DescribeSignatures(sigs, a.C, block) }); f != nil {
		pred := "FAIL sigd-fault " + oneLineS(fmt.Sprint(f))
		if breach {
			pred = "n/a"
			tags = append(tags, "sigd:contract-breach-fault")
		}
		return core.Result{Out: "fault", Pred: pred, NonTrivial: true, Tags: tags}
	}
	out, badLine := parseSignaturesText(text)
	if badLine != "" {
		return core.Result{Out: "unparsed", Pred: "FAIL sigd-unparsed the harness cannot read the structure of: " + firstLine(badLine), NonTrivial: true, Tags: tags}
	}
	tags = append(tags, "sout:"+strings.SplitN(out, " ", 2)[0])
	// no signature accepts the argument list, yet nothing is rejected
	// (for the detailed type of an argument list: a Tuple without an explicit size — of an Array type or a Tuple with a size the
	// describer only looks at the declared / minimal number of arguments)
	if !breach && block == nil && len(sigs) > 0 && a.Ty.K == "tup" && !a.Ty.HasSize {
		accepted := false
		for i := range sigs {
			ok, f := lat.SafeAsg(tuples[i], a.C)
			blockOK := blocks[i] == nil
			if blocks[i] != nil {
				blockOK, _ = lat.SafeAsg(blocks[i], types.DefaultUndefType())
			}
			if f == nil && ok && blockOK {
				accepted = true
			}
		}
		nothing := out == "empty" || strings.Trim(strings.TrimPrefix(out, "list"), " ()") == "" && strings.HasPrefix(out, "list")
		if !accepted && nothing {
			return core.Result{Out: out, Pred: "FAIL sigd-silent no signature accepts the arguments but nothing is rejected", NonTrivial: true, Tags: tags}
		}
	}
	return core.Result{Out: out, Pred: "ok", NonTrivial: true, Tags: tags}
}

type sigT struct {
	ts     []lat.Ty
	lo, hi int64
	blk    string
}

func (s sigT) String() string {
	ss := make([]string, len(s.ts))
	for i, t := range s.ts {
		ss[i] = t.String()
	}
	return fmt.Sprintf("((%s) %d %d %s)", strings.Join(ss, " "), s.lo, s.hi, s.blk)
}

func genSigd(g *core.G, lg *lat.Gen) {
	str, integer := lat.Atom("str"), lat.Int(lat.MinI, lat.MaxI)
	stA := lat.Struct(lat.Mem("a", false, integer))
	stAB := lat.Struct(lat.Mem("a", false, integer), lat.Mem("b", true, str))
	pool := []sigT{
		{nil, 0, 0, "n"},
		{[]lat.Ty{str}, 1, 1, "n"},
		{[]lat.Ty{str, integer}, 2, 2, "n"},
		{[]lat.Ty{str, integer}, 1, lat.MaxI, "n"},
		{[]lat.Ty{integer}, 0, lat.MaxI, "n"},
		{[]lat.Ty{stA}, 1, 1, "n"},
		{[]lat.Ty{stAB}, 0, 1, "n"},
		{[]lat.Ty{stA, str}, 2, 2, "n"},
		{[]lat.Ty{lat.Opt(str)}, 0, 1, "n"},
		{[]lat.Ty{str}, 1, 1, "r"},
		{[]lat.Ty{str}, 1, 1, "o"},
		{[]lat.Ty{lat.Atom("any"), lat.Atom("any")}, 2, 3, "n"},
		{[]lat.Ty{lat.Hash(str, integer, 0, lat.MaxI)}, 1, 1, "n"},
		{[]lat.Ty{lat.Arr(str, 0, lat.MaxI), integer}, 1, 2, "n"},
		{[]lat.Ty{lat.Var(integer, lat.Flt(0, 1))}, 1, 1, "n"},
		{[]lat.Ty{lat.Int(0, 5), lat.Int(0, 5)}, 2, 2, "r"},
		{[]lat.Ty{lat.Tup([]lat.Ty{str, integer})}, 1, 1, "n"},
		{[]lat.Ty{lat.Enum(false, "a", "b")}, 1, 2, "o"},
	}
	s1, i1 := lat.StrVal("a"), lat.Int(1, 1)
	argLists := []lat.Ty{
		lat.Tup(nil), lat.Tup([]lat.Ty{s1}), lat.Tup([]lat.Ty{i1}), lat.Tup([]lat.Ty{s1, i1}), lat.Tup([]lat.Ty{s1, lat.StrVal("x")}),
		lat.Tup([]lat.Ty{s1, i1, lat.StrVal("x")}), lat.Tup([]lat.Ty{lat.Struct(lat.Mem("a", false, i1))}),
		lat.Tup([]lat.Ty{lat.Struct(lat.Mem("b", false, i1))}), lat.Tup([]lat.Ty{lat.Struct(lat.Mem("a", false, s1))}),
		lat.Tup([]lat.Ty{lat.Struct(lat.Mem("a", false, i1)), s1}), lat.Tup([]lat.Ty{lat.Atom("undef")}),
		lat.Tup([]lat.Ty{lat.Tup([]lat.Ty{s1}), i1, lat.Int(2, 2), lat.Int(3, 3)}), lat.Tup([]lat.Ty{i1, lat.Int(2, 2), lat.Int(3, 3), lat.Int(4, 4)}),
		lat.Tup([]lat.Ty{lat.Flt(0.5, 0.5)}), lat.Tup([]lat.Ty{lat.Tup([]lat.Ty{s1, s1})}), lat.Tup([]lat.Ty{lat.StrVal("c")}),
		lat.Tup([]lat.Ty{lat.Hash(str, s1, 1, 1)}), lat.Tup([]lat.Ty{lat.Int(7, 7), lat.Int(3, 3)}),
		lat.Arr(s1, 1, 1), lat.Arr(i1, 2, 2), lat.Arr(lat.Struct(lat.Mem("a", false, s1)), 1, 1), lat.Arr(s1, 0, 3), lat.Arr(lat.Struct(lat.Mem("b", false, i1)), 0, 1),
	}
	emit := func(sigs []sigT, a lat.Ty) {
		ss := make([]string, len(sigs))
		for i, s := range sigs {
			ss[i] = s.String()
		}
		g.Emit("sigd (" + strings.Join(ss, " ") + ") " + a.String())
	}
	for i, s := range pool {
		for _, a := range argLists {
			emit([]sigT{s}, a)
		}
		for j, t := range pool {
			if i != j {
				for k, a := range argLists {
					if g.Thorough() || (i+j+k)%4 == 0 {
						emit([]sigT{s, t}, a)
					}
				}
			}
		}
	}
	lg.Alias = false
	for n := 0; n < 1500*g.Scale; n++ {
		var sigs []sigT
		for k := 1 + g.Rng.Intn(3); k > 0; k-- {
			s := pool[g.Rng.Intn(len(pool))]
			if g.Rng.Intn(3) == 0 { // a random parameter type
				ts := append([]lat.Ty{}, s.ts...)
				if len(ts) > 0 {
					ts[g.Rng.Intn(len(ts))] = lg.Ty(1 + g.Rng.Intn(2))
					s.ts = ts
				}
			}
			sigs = append(sigs, s)
		}
		var a lat.Ty
		if g.Rng.Intn(3) == 0 {
			a = argLists[g.Rng.Intn(len(argLists))]
		} else {
			k := g.Rng.Intn(4)
			ts := make([]lat.Ty, k)
			for i := range ts {
				switch g.Rng.Intn(3) {
				case 0:
					ts[i] = lg.Narrow(pool[g.Rng.Intn(len(pool)-1)+1].ts[0])
				case 1:
					ts[i] = lg.Ty(1)
				default:
					ts[i] = []lat.Ty{s1, i1, lat.Struct(lat.Mem("a", false, i1)), lat.Atom("undef")}[g.Rng.Intn(4)]
				}
			}
			a = lat.Tup(ts)
		}
		emit(sigs, a)
	}
	// calls WITH a block: against signatures without / with a required / with an optional block type (Callable[1, 1]); the block's
	// signature fits, has other parameters, declares a return type, has a block of its own
	tp := func(t lat.Ty) *lat.Ty { return &t }
	b11 := lat.TupSz(nil, 1, 1)
	blockSigs := []string{lat.Call(tp(b11), nil, nil).String(), lat.Call(tp(lat.Tup([]lat.Ty{str})), nil, nil).String(),
		lat.Call(tp(lat.TupSz(nil, 2, 2)), nil, nil).String(), lat.Call(tp(b11), tp(integer), nil).String(), lat.Call(nil, nil, nil).String(),
		lat.Call(tp(b11), nil, tp(lat.Call(tp(b11), nil, nil))).String(), lat.Call(tp(lat.TupSz(nil, 0, 3)), nil, nil).String(),
		lat.Call(tp(lat.TupSz([]lat.Ty{lat.Atom("unit")}, 1, 1)), nil, nil).String()}
	emitB := func(sigs []sigT, a lat.Ty, b string) {
		ss := make([]string, len(sigs))
		for i, s := range sigs {
			ss[i] = s.String()
		}
		g.Emit("sigd (" + strings.Join(ss, " ") + ") " + a.String() + " " + b)
	}
	for i, s := range pool {
		for k, a := range argLists {
			for m, b := range blockSigs {
				if g.Thorough() || (i+k+m)%4 == 0 {
					emitB([]sigT{s}, a, b)
				}
			}
		}
		for j, t := range pool {
			if i != j && (s.blk != "n" || t.blk != "n" || (i+j)%5 == 0) {
				for k, a := range argLists {
					if (i+j+k)%6 == 0 || g.Thorough() {
						emitB([]sigT{s, t}, a, blockSigs[(i+j+k)%len(blockSigs)])
					}
				}
			}
		}
	}

	// contract breaches: the faults the model makes explicit (argument type that is no Tuple/Array, a signature without a parameter
	// tuple, a parameter tuple that takes arguments but declares no type) and no signature at all
	for _, line := range []string{
		"sigd (((str) 1 1 n)) " + i1.String(),
		"sigd (((str) 1 1 n)) " + lat.Struct(lat.Mem("a", false, i1)).String(),
		"sigd (nilparams) " + lat.Tup([]lat.Ty{s1}).String(),
		"sigd (((str) 1 1 n) nilparams) " + lat.Tup(nil).String(),
		"sigd ((() 1 1 n)) " + lat.Tup([]lat.Ty{s1}).String(),
		"sigd ((() 1 1 n)) " + lat.Tup([]lat.Ty{s1, s1}).String(),
		"sigd ((() 0 2 n) ((str) 1 1 n)) " + lat.Tup([]lat.Ty{i1}).String(),
		"sigd () " + lat.Tup([]lat.Ty{s1}).String(),
	} {
		g.Emit(line)
	}
}
