package c19

import (
	"fmt"
	"math"
	"sort"
	"strconv"
	"strings"

	"verif/harness/core"
	"verif/harness/lat"
	"verif/harness/sx"

	"github.com/lyraproj/pcore/px"
	"github.com/lyraproj/pcore/types"
)

// The STRUCTURE of the mismatch description (model: lean/Pcore/Model/Describe.lean, driver: lean/Driver/DescC19.lean).
//
//	descs E A          → empty | fault | <item> <item> …     px.DescribeMismatch("x", E, A): one item per reported mismatch
//	descx E A K PATH   → the same line; K PATH is the mismatch the generator PLANTED (one mutation of an assignable actual
//	                     type at a known position): the implementation must report a mismatch of kind K at PATH
//
//	item ::= (tm PATH (HEAD*) HEAD)     typeMismatch: the alternatives listed as expected, the actual type
//	       | (pm PATH t|f HEAD HEAD)    patternMismatch: "an undef value or" said?, expected, actual
//	       | (sz PATH LO HI LO HI)      sizeMismatch: expected range, actual range
//	       | (cnt PATH LO HI LO HI)     countMismatch
//	       | (mk PATH xKEY) | (xk PATH xKEY) | (utr PATH xKEY) | (ub PATH) | (mrb PATH)
//	PATH ::= (ELEM*)    ELEM ::= (s xKEY) subject | (e xKEY) entry | (k xKEY) key of entry | (i xN) index | (v xN) variant
//	                           | (p xKEY) parameter | (r x) return | (b xKEY) block | (g xN) signature
//	HEAD ::= the head name of a type (Type.Name(); every Object type is `Object`; a quoted string literal is `String`)
//
// The structured mismatch list is not reachable from outside package internal (see /verif/work/hook-C19.md for the hook that
// would expose it), so the harness READS THE STRUCTURE BACK FROM THE TEXT: one line per mismatch, path elements and message
// formats are fixed strings per kind (formatMismatch / pathType.String / text() of each mismatch struct).  A text the reader
// does not understand is `FAIL desc-unparsed`.  Canonicalisation: a run of consecutive `xk` items with the same path is sorted
// by key (the order is Go map order).  Terms with a user alias answer `alias`, Struct member names with a quote or a line
// break `unsafe-key` (both sides).
//
// Direct predicates on the implementation (classes): desc-panic; desc-empty-not-asg / desc-nonempty-asg (empty exactly when
// assignable); desc-no-subject (every mismatch's path starts with the subject element it was given); desc-bad-path (every path
// is a valid position of the expected type, variant steps optional); desc-unreal-<kind> (the per-kind soundness conditions
// that are theorems of the model: a missing key is a required member absent from the actual Struct, an unrecognised key is a
// member of the actual Struct the expected one lacks, a size/count mismatch on an unmerged description has an actual range
// outside the expected one); desc-planted-missed (descx); ctor-parse-differ.

const descSubject = "x"

type pelem struct{ tag, key string }

type ditem struct {
	full  bool   // from the structured result: expS / actS hold the full type terms of a tm / pm
	expS  string
	actS  string
	expT  px.Type // live payload types of the structured result
	actT  px.Type
	kind  string
	path  []pelem
	heads []string // tm: expected alternatives; pm: [expected]
	act   string
	opt   bool
	r     [4]int64
	key   string
}

func (p pelem) String() string { return "(" + p.tag + " " + sx.Str(p.key).String() + ")" }

func pathString(p []pelem) string {
	ss := make([]string, len(p))
	for i, e := range p {
		ss[i] = e.String()
	}
	return "(" + strings.Join(ss, " ") + ")"
}

func (d ditem) String() string {
	p := pathString(d.path)
	if d.full && (d.kind == "tm" || d.kind == "pm") {
		return "(" + d.kind + " " + p + " " + d.expS + " " + d.actS + ")"
	}
	switch d.kind {
	case "tm":
		return "(tm " + p + " (" + strings.Join(d.heads, " ") + ") " + d.act + ")"
	case "pm":
		return "(pm " + p + " " + sx.B(d.opt) + " " + d.heads[0] + " " + d.act + ")"
	case "sz", "cnt":
		return fmt.Sprintf("(%s %s %d %d %d %d)", d.kind, p, d.r[0], d.r[1], d.r[2], d.r[3])
	case "mk", "xk", "utr":
		return "(" + d.kind + " " + p + " " + sx.Str(d.key).String() + ")"
	}
	return "(" + d.kind + " " + p + ")"
}

func samePath(a, b []pelem) bool {
	if len(a) != len(b) {
		return false
	}
	for i := range a {
		if a[i] != b[i] {
			return false
		}
	}
	return true
}

// sortRuns sorts every maximal run of consecutive extraneous-key items with the same path by key (bytes).
func sortRuns(ds []ditem) {
	for i := 0; i < len(ds); {
		j := i + 1
		if ds[i].kind == "xk" {
			for j < len(ds) && ds[j].kind == "xk" && samePath(ds[j].path, ds[i].path) {
				j++
			}
			run := ds[i:j]
			sort.SliceStable(run, func(x, y int) bool { return run[x].key < run[y].key })
		}
		i = j
	}
}

func renderItems(ds []ditem) string {
	if len(ds) == 0 {
		return "empty"
	}
	ss := make([]string, len(ds))
	for i, d := range ds {
		ss[i] = d.String()
	}
	return strings.Join(ss, " ")
}

// ---- the structured result (hook px.VerifDescribe, build tag verif) ---------------------------------------------------

var classTag = map[string]string{"typeMismatch": "tm", "patternMismatch": "pm", "sizeMismatch": "sz", "countMismatch": "cnt",
	"missingKey": "mk", "extraneousKey": "xk", "unresolvedTypeReference": "utr", "unexpectedBlock": "ub", "missingRequiredBlock": "mrb"}

var pathTag = map[string]string{"": "s", "entry": "e", "key of entry": "k", "index": "i", "variant": "v", "parameter": "p",
	"return": "r", "block": "b", "signature": "g"}

// encAtomS: a type a mismatch carries, as a term; the two members of RichData the term language lacks are `typeset` / `deferred`.
func encAtomS(t px.Type) (string, error) {
	ty, err := lat.EncTy(t)
	if err == nil {
		return ty.String(), nil
	}
	if t != nil {
		switch t.Name() {
		case "TypeSet":
			return "typeset", nil
		case "Deferred":
			return "deferred", nil
		}
	}
	return "", err
}

// encExpS: an expected type; a Variant (given, or built by mergeMismatch) member by member.
func encExpS(t px.Type) (string, error) {
	if vt, ok := t.(*types.VariantType); ok {
		var sb strings.Builder
		sb.WriteString("(var")
		for _, m := range vt.Types() {
			s, err := encAtomS(m)
			if err != nil {
				return "", err
			}
			sb.WriteString(" " + s)
		}
		sb.WriteString(")")
		return sb.String(), nil
	}
	return encAtomS(t)
}

func structuredItems(ms []px.VerifMismatch) ([]ditem, error) {
	out := make([]ditem, 0, len(ms))
	for _, m := range ms {
		d := ditem{full: true, kind: classTag[m.Class], key: m.Key}
		if d.kind == "" {
			return nil, fmt.Errorf("unknown mismatch class %q", m.Class)
		}
		for _, pe := range m.Path {
			tag, ok := pathTag[pe.Type]
			if !ok {
				return nil, fmt.Errorf("unknown path type %q", pe.Type)
			}
			d.path = append(d.path, pelem{tag, pe.Key})
		}
		switch d.kind {
		case "tm", "pm":
			var err error
			if d.expS, err = encExpS(m.Expected); err != nil {
				return nil, err
			}
			if d.actS, err = encAtomS(m.Actual); err != nil {
				return nil, err
			}
			d.expT, d.actT = m.Expected, m.Actual
		case "sz", "cnt":
			ei, ok1 := m.Expected.(*types.IntegerType)
			ai, ok2 := m.Actual.(*types.IntegerType)
			if !ok1 || !ok2 {
				return nil, fmt.Errorf("a size mismatch that does not carry two Integer types")
			}
			d.r = [4]int64{ei.Min(), ei.Max(), ai.Min(), ai.Max()}
		}
		out = append(out, d)
	}
	sortRuns(out)
	return out, nil
}

// agree: the text and the structure tell the same story — same kinds, paths and keys in the same order, same size ranges.
func agree(st, tx []ditem) string {
	if len(st) != len(tx) {
		return fmt.Sprintf("%d mismatches in the structured result, %d lines of text", len(st), len(tx))
	}
	for i := range st {
		a, b := st[i], tx[i]
		if a.kind != b.kind || !samePath(a.path, b.path) || a.key != b.key || ((a.kind == "sz" || a.kind == "cnt") && a.r != b.r) {
			return "mismatch " + strconv.Itoa(i) + ": structure " + a.String() + ", text " + b.String()
		}
	}
	return ""
}

// ---- reading the structure back from the text -----------------------------------------------------------------------

var pathWords = []struct{ word, tag string }{
	{"key of entry '", "k"}, {"entry '", "e"}, {"index '", "i"}, {"variant '", "v"}, {"parameter '", "p"},
	{"return '", "r"}, {"block '", "b"},
}

// headOf: the head name of a printed type (shortName, px.ToString2(t, Expanded) or a quoted string literal).
func headOf(s string) string {
	if s == "" {
		return "?"
	}
	if s[0] == '\'' || s[0] == '"' {
		return "String"
	}
	if i := strings.IndexAny(s, "[ "); i >= 0 {
		s = s[:i]
	}
	if strings.HasPrefix(s, "Lat::O") || s == "Deferred" { // every Object type (the Deferred member of RichData is one) is `Object`
		return "Object"
	}
	return s
}

func parseRange(s string, zero string) (lo, hi int64, ok bool) {
	num := func(x string) (int64, bool) {
		n, err := strconv.ParseInt(x, 10, 64)
		return n, err == nil
	}
	switch {
	case s == zero || s == "0":
		return 0, 0, true
	case s == "unbounded":
		return 0, math.MaxInt64, true
	case strings.HasPrefix(s, "at most "):
		n, ok := num(s[len("at most "):])
		return 0, n, ok
	case strings.HasPrefix(s, "at least "):
		n, ok := num(s[len("at least "):])
		return n, math.MaxInt64, ok
	case strings.HasPrefix(s, "between "):
		ps := strings.Split(s[len("between "):], " and ")
		if len(ps) != 2 {
			return 0, 0, false
		}
		a, ok1 := num(ps[0])
		b, ok2 := num(ps[1])
		return a, b, ok1 && ok2
	}
	n, ok := num(s)
	return n, n, ok
}

func quotedKey(s, prefix string) (string, bool) {
	if strings.HasPrefix(s, prefix) && strings.HasSuffix(s, "'") && len(s) >= len(prefix)+1 {
		return s[len(prefix) : len(s)-1], true
	}
	return "", false
}

// parseMessage reads the text() of one mismatch.
func parseMessage(d *ditem, t string) bool {
	if k, ok := quotedKey(t, "expects a value for key '"); ok {
		d.kind, d.key = "mk", k
		return true
	}
	if k, ok := quotedKey(t, "unrecognized key '"); ok {
		d.kind, d.key = "xk", k
		return true
	}
	if k, ok := quotedKey(t, "references an unresolved type '"); ok {
		d.kind, d.key = "utr", k
		return true
	}
	switch t {
	case "does not expect a block":
		d.kind = "ub"
		return true
	case "expects a block":
		d.kind = "mrb"
		return true
	}
	if strings.HasPrefix(t, "expects size to be ") {
		ps := strings.Split(t[len("expects size to be "):], ", got ")
		if len(ps) != 2 {
			return false
		}
		var ok1, ok2 bool
		d.kind = "sz"
		d.r[0], d.r[1], ok1 = parseRange(ps[0], "0")
		d.r[2], d.r[3], ok2 = parseRange(ps[1], "0")
		return ok1 && ok2
	}
	if !strings.HasPrefix(t, "expects ") {
		return false
	}
	rest := t[len("expects "):]
	if i := strings.Index(rest, ", got "); i >= 0 {
		lhs := rest[:i]
		for _, suffix := range []string{" arguments", " argument"} {
			if strings.HasSuffix(lhs, suffix) {
				lo, hi, ok1 := parseRange(strings.TrimSuffix(lhs, suffix), "no")
				alo, ahi, ok2 := parseRange(rest[i+len(", got "):], "none")
				if ok1 && ok2 {
					d.kind, d.r = "cnt", [4]int64{lo, hi, alo, ahi}
					return true
				}
			}
		}
	}
	for _, pf := range []struct {
		prefix string
		opt    bool
	}{{"an undef value or a match for ", true}, {"a match for ", false}} {
		if strings.HasPrefix(rest, pf.prefix) {
			body := rest[len(pf.prefix):]
			i := strings.LastIndex(body, ", got ")
			if i < 0 {
				return false
			}
			d.kind, d.opt = "pm", pf.opt
			d.heads = []string{headOf(body[:i])}
			d.act = headOf(body[i+len(", got "):])
			return true
		}
	}
	if strings.HasPrefix(rest, "a value of type ") {
		body := rest[len("a value of type "):]
		i := strings.Index(body, ", got ")
		if i < 0 {
			return false
		}
		es := body[:i]
		d.kind, d.act = "tm", headOf(body[i+len(", got "):])
		// "A or B"  |  "A, B, or C"
		es = strings.Replace(es, ", or ", ", ", 1)
		es = strings.Replace(es, " or ", ", ", 1)
		for _, e := range strings.Split(es, ", ") {
			d.heads = append(d.heads, headOf(e))
		}
		return true
	}
	for _, art := range []string{"a ", "an "} {
		if strings.HasPrefix(rest, art) {
			body := rest[len(art):]
			i := strings.Index(body, " value, got ")
			if i < 0 {
				continue
			}
			d.kind = "tm"
			d.heads = []string{headOf(body[:i])}
			d.act = headOf(body[i+len(" value, got "):])
			return true
		}
	}
	return false
}

// parseDescLine reads one line of the description: " <subject> <path element>… <message>".
func parseDescLine(line, subjectKey string) (ditem, bool) {
	var d ditem
	if !strings.HasPrefix(line, " "+subjectKey) {
		return d, false
	}
	d.path = []pelem{{"s", subjectKey}}
	rest := line[1+len(subjectKey):]
	for {
		if !strings.HasPrefix(rest, " ") {
			return d, false
		}
		rest = rest[1:]
		found := false
		for _, w := range pathWords {
			if strings.HasPrefix(rest, w.word) {
				body := rest[len(w.word):]
				i := strings.IndexByte(body, '\'')
				if i < 0 {
					return d, false
				}
				d.path = append(d.path, pelem{w.tag, body[:i]})
				rest = body[i+1:]
				found = true
				break
			}
		}
		if !found {
			// elements printed without quotes: a signature number (`0`), `parameter N` (a decimal parameter name), `block`
			word := rest
			if i := strings.IndexByte(rest, ' '); i >= 0 {
				word = rest[:i]
			}
			switch {
			case isDecimal(word):
				d.path = append(d.path, pelem{"g", word})
				rest = rest[len(word):]
				found = true
			case word == "parameter":
				tail := rest[len("parameter "):]
				num := tail
				if i := strings.IndexByte(tail, ' '); i >= 0 {
					num = tail[:i]
				}
				if isDecimal(num) {
					d.path = append(d.path, pelem{"p", num})
					rest = tail[len(num):]
					found = true
				}
			case word == "block":
				d.path = append(d.path, pelem{"b", "block"})
				rest = rest[len(word):]
				found = true
			}
		}
		if !found {
			break
		}
	}
	return d, parseMessage(&d, rest)
}

func isDecimal(s string) bool {
	if s == "" {
		return false
	}
	for _, c := range s {
		if c < '0' || c > '9' {
			return false
		}
	}
	return true
}

func parseDescription(text, subjectKey string) ([]ditem, string) {
	if text == "" {
		return nil, ""
	}
	var out []ditem
	for _, line := range strings.Split(text, "\n") {
		d, ok := parseDescLine(line, subjectKey)
		if !ok {
			return nil, line
		}
		out = append(out, d)
	}
	sortRuns(out)
	return out, ""
}

// ---- the op --------------------------------------------------------------------------------------------------------

func sexpHasAlias(e sx.Sexp) bool {
	if !e.IsList {
		return false
	}
	if e.Tag() == "alias" {
		return true
	}
	for _, k := range e.List {
		if sexpHasAlias(k) {
			return true
		}
	}
	return false
}

func unsafeKeys(t lat.Ty) bool {
	return lat.Contains(t, func(u lat.Ty) bool {
		for _, m := range u.Ms {
			if strings.ContainsAny(m.Name, "'\n\r") {
				return true
			}
		}
		return false
	})
}

func execDescs(c px.Context, op string, args []sx.Sexp) core.Result {
	tags := []string{"op:" + op}
	if !(op == "descs" && len(args) == 2 || op == "descx" && len(args) == 4 && !args[2].IsList && args[3].IsList) {
		return core.Result{Out: "bad-op", Pred: "FAIL harness-bad-op " + op}
	}
	// a term with a user alias: the model reads (alias T) as its alias marker; only the structure is compared (the text names aliases)
	hasAlias := sexpHasAlias(args[0]) || sexpHasAlias(args[1])
	if hasAlias {
		tags = append(tags, "alias:yes")
	}
	var env *lat.Env
	if f := lat.Safely(func() { env = lat.EnvOf(c) }); f != nil {
		return core.Result{Out: "bad-op", Pred: "FAIL harness-bad-op environment: " + fmt.Sprint(f)}
	}
	var as [2]lat.Arg
	for i := 0; i < 2; i++ {
		a, status, err := env.BuildArg(args[i], &tags)
		switch status {
		case "bad-op":
			return core.Result{Out: "bad-op", Pred: "FAIL harness-bad-op " + fmt.Sprint(err), Tags: tags}
		case "unbuildable":
			return core.Result{Out: "unbuildable", Pred: "n/a", Tags: tags}
		}
		as[i] = a
		tags = append(tags, string(rune('E'-4*i))+":"+lat.Head(a.Ty))
	}
	e, a := as[0], as[1]
	if unsafeKeys(e.Ty) || unsafeKeys(a.Ty) {
		return core.Result{Out: "unsafe-key", Pred: "n/a", Tags: tags}
	}
	subjectKey := "function " + descSubject + ":"
	describe := func(et, at px.Type) (string, []ditem, string) {
		var text string
		if f := lat.Safely(func() { text = px.DescribeMismatch(descSubject, et, at) }); f != nil {
			return "fault", nil, "FAIL desc-panic " + firstLine(fmt.Sprint(f))
		}
		ds, bad := parseDescription(text, subjectKey)
		if bad != "" {
			return "unparsed", nil, "FAIL desc-unparsed the harness cannot read the structure of: " + firstLine(bad)
		}
		// the structured result of the same call
		var vms []px.VerifMismatch
		if f := lat.Safely(func() { vms = px.VerifDescribe(descSubject, et, at) }); f != nil {
			return "fault", nil, "FAIL desc-panic (structured) " + firstLine(fmt.Sprint(f))
		}
		st, err := structuredItems(vms)
		if err != nil {
			return "unmodelled", nil, "FAIL enc-unmodelled a mismatch carries a type outside the term language: " + err.Error()
		}
		if why := agree(st, ds); why != "" {
			return renderItems(st) + " ;; " + renderItems(ds), st, "FAIL desc-text-structure-differ " + why
		}
		if len(st) == 0 {
			return "empty", st, ""
		}
		if hasAlias {
			return renderItems(st), st, ""
		}
		return renderItems(st) + " ;; " + renderItems(ds), st, ""
	}
	out, ds, fail := describe(e.C, a.C)
	res := func(pred string) core.Result {
		nt := out != "empty" || !lat.Nullary(e.Ty) || !lat.Nullary(a.Ty)
		return core.Result{Out: out, Pred: strings.Replace(pred, "\t", " ", -1), NonTrivial: nt, Tags: tags}
	}
	if fail != "" {
		return res(fail)
	}
	for _, d := range ds {
		tags = append(tags, "kind:"+d.kind, fmt.Sprintf("pathlen:%d", len(d.path)-1))
	}
	tags = append(tags, fmt.Sprintf("n:%d", minInt(len(ds), 5)))
	// the same question on the re-parsed types
	if e.P != nil || a.P != nil {
		ep, ap := e.C, a.C
		if e.P != nil {
			ep = e.P
		}
		if a.P != nil {
			ap = a.P
		}
		if pout, _, _ := describe(ep, ap); pout != out {
			return res("FAIL ctor-parse-differ constructor-built: " + firstLine(out) + "; re-parsed: " + firstLine(pout))
		}
	}
	asg, f := lat.SafeAsg(e.C, a.C)
	if f != nil {
		return res("FAIL panic IsAssignable")
	}
	switch {
	case len(ds) == 0 && !asg:
		return res("FAIL desc-empty-not-asg-" + lat.Head(e.Ty) + " nothing to describe although the actual type is not assignable")
	case len(ds) != 0 && asg:
		return res("FAIL desc-nonempty-asg-" + lat.Head(e.Ty) + " a mismatch is described although the actual type is assignable: " + firstLine(out))
	}
	for _, d := range ds {
		if len(d.path) == 0 || d.path[0] != (pelem{"s", subjectKey}) {
			return res("FAIL desc-no-subject-" + lat.Head(e.Ty) + " a mismatch does not start with the subject: " + d.String())
		}
		if !validPos(e.Ty, d.path[1:]) {
			return res("FAIL desc-bad-path-" + d.kind + " the path of a mismatch is no position of the expected type: " + d.String())
		}
		// C19_typeMismatch_real_partial / C19_patternMismatch_real_partial: nothing merged, plain actual type => the reported
		// expected type does not accept the reported actual type
		if (d.kind == "tm" || d.kind == "pm") && d.expT != nil && !hasAlias && noMergeT(e.Ty) && plainT(a.Ty) {
			if ok, f := lat.SafeAsg(d.expT, d.actT); f == nil && ok {
				return res("FAIL desc-unreal-" + d.kind + " the reported expected type accepts the reported actual type: " + d.String())
			}
		}
		if hasAlias {
			continue // the walk of `reach` below is over the alias-free terms (an aliased actual type is never descended into)
		}
		if why := unreal(env, e.Ty, a.Ty, d); why != "" {
			return res("FAIL desc-unreal-" + d.kind + " " + why + ": " + d.String())
		}
	}
	if op == "descx" {
		want, ok := parsePlanted(args[2], args[3], subjectKey)
		if !ok {
			return core.Result{Out: "bad-op", Pred: "FAIL harness-bad-op planted mismatch", Tags: tags}
		}
		tags = append(tags, "planted:"+want.kind)
		found := false
		for _, d := range ds {
			if d.kind == want.kind && samePath(d.path, want.path) {
				found = true
			}
		}
		if !found {
			return res("FAIL desc-planted-missed-" + want.kind + " the planted mismatch " + want.kind + " at " + pathString(want.path) + " is not reported: " + firstLine(out))
		}
		if len(ds) == 1 {
			tags = append(tags, "planted:exactly-one")
		}
	}
	return res("ok")
}

func minInt(a, b int) int {
	if a < b {
		return a
	}
	return b
}

// parsePlanted reads `K (ELEM…)` (ELEM as in the output, without the subject).
func parsePlanted(k, p sx.Sexp, subjectKey string) (ditem, bool) {
	d := ditem{kind: k.Atom, path: []pelem{{"s", subjectKey}}}
	for _, e := range p.List {
		if !e.IsList || len(e.List) != 2 {
			return d, false
		}
		key, err := e.List[1].AsBytes()
		if err != nil {
			return d, false
		}
		d.path = append(d.path, pelem{e.List[0].Atom, string(key)})
	}
	return d, true
}

// ---- positions: the walk of the describer through an (expected, actual) pair ------------------------------------------
//
// Lean twin: `Pcore.Desc.Reach` (lean/Pcore/Proofs/DescribePos.lean).  A path element moves to a component of BOTH types
// the way the container arms of internalDescribe do; a Variant member, the contained type of an Optional and a member of
// the resolved Data / RichData alias are entered either silently (the `variant` element of a merged description is
// chopped) or through a `variant 'N'` element.

var dataMembersT = []lat.Ty{lat.Atom("sdata"), lat.Atom("undef"), lat.Arr(lat.Atom("data"), 0, lat.MaxI), lat.Hash(lat.Atom("str"), lat.Atom("data"), 0, lat.MaxI)}

// richMembersT: the members of RichData; the two the term language lacks (TypeSet, Deferred: numbers 5 and 6) are `opaque`.
var richMembersT = []lat.Ty{lat.Atom("scalar"), lat.Atom("bin"), lat.Atom("default"), lat.Obj(), lat.TypeOf(lat.Atom("any")),
	{K: "opaque"}, {K: "opaque"}, lat.Atom("undef"), lat.Arr(lat.Atom("rdata"), 0, lat.MaxI),
	lat.Hash(lat.Var(lat.Atom("str"), lat.Atom("numeric")), lat.Atom("rdata"), 0, lat.MaxI)}

type eaPair struct {
	e, a lat.Ty
	hasA bool // false: the walk follows the expected type only
}

func lastMember(ms []lat.Member, name string) (lat.Member, bool) {
	for i := len(ms) - 1; i >= 0; i-- {
		if ms[i].Name == name {
			return ms[i], true
		}
	}
	return lat.Member{}, false
}

func memberKeyT(m lat.Member) lat.Ty {
	if m.Opt {
		return lat.Opt(lat.StrVal(m.Name))
	}
	return lat.StrVal(m.Name)
}

// variantMembers: the members internalDescribe loops over when it is handed e (optCtx: the original is an Optional)
func variantMembers(e lat.Ty, optCtx bool) ([]lat.Ty, bool) {
	switch e.K {
	case "var":
		ms := e.Ts
		if optCtx {
			ms = append(append([]lat.Ty{}, ms...), lat.Atom("undef"))
		}
		return ms, true
	case "data":
		return dataMembersT, true
	case "rdata":
		return richMembersT, true
	}
	return nil, false
}

// reach: every (expected, actual) pair the path leads to from (e, a).  fuel bounds the silent steps.
func reach(p eaPair, path []pelem, optCtx bool, fuel int) []eaPair {
	if fuel <= 0 {
		return nil
	}
	var out []eaPair
	if len(path) == 0 {
		out = append(out, p)
	}
	e, a := p.e, p.a
	// silent steps
	if e.K == "opt" {
		out = append(out, reach(eaPair{e.Ts[0], a, p.hasA}, path, true, fuel-1)...)
	}
	if ms, ok := variantMembers(e, optCtx); ok {
		for i, m := range ms {
			if m.K == "opaque" { // TypeSet / Deferred: a final position, entered through its variant element only
				if len(path) == 1 && path[0].tag == "v" && path[0].key == strconv.Itoa(i) {
					out = append(out, eaPair{m, a, p.hasA})
				}
				continue
			}
			out = append(out, reach(eaPair{m, a, p.hasA}, path, false, fuel-1)...)
			if len(path) > 0 && path[0].tag == "v" && path[0].key == strconv.Itoa(i) {
				out = append(out, reach(eaPair{m, a, p.hasA}, path[1:], false, fuel-1)...)
			}
		}
	}
	// Callable against Callable: the parameter tuples are described under the same path (absent actual parameters = the default
	// Tuple); the return / block types are final positions below `return` / `block`
	if e.K == "call" {
		ep := lat.CallParts(e)
		var apar [3]*lat.Ty
		aCall := p.hasA && a.K == "call"
		if aCall {
			apar = lat.CallParts(a)
		}
		if ep[0] != nil && (aCall || !p.hasA) {
			at := lat.TupSz(nil, 0, lat.MaxI)
			if apar[0] != nil {
				at = *apar[0]
			}
			out = append(out, reach(eaPair{*ep[0], at, aCall}, path, false, fuel-1)...)
		}
		if len(path) == 1 && path[0].tag == "r" && ep[1] != nil {
			out = append(out, eaPair{*ep[1], lat.Ty{}, false})
		}
		if len(path) == 1 && path[0].tag == "b" && ep[2] != nil {
			out = append(out, eaPair{*ep[2], lat.Ty{}, false})
		}
	}
	if len(path) == 0 {
		return out
	}
	h, rest := path[0], path[1:]
	step := func(e2, a2 lat.Ty, ok bool) {
		if ok || !p.hasA {
			out = append(out, reach(eaPair{e2, a2, p.hasA && ok}, rest, false, fuel-1)...)
		}
	}
	switch h.tag {
	case "e", "k":
		switch e.K {
		case "struct":
			if m, ok := lastMember(e.Ms, h.key); ok {
				m2, ok2 := lastMember(a.Ms, h.key)
				ok2 = ok2 && a.K == "struct"
				if h.tag == "e" {
					step(m.T, m2.T, ok2)
				} else {
					step(lat.StrVal(h.key), lat.StrVal(h.key), ok2)
				}
			}
		case "hash":
			m2, ok2 := lastMember(a.Ms, h.key)
			ok2 = ok2 && a.K == "struct"
			if h.tag == "e" {
				step(e.Ts[1], m2.T, ok2)
			} else {
				step(e.Ts[0], memberKeyT(m2), ok2)
			}
		}
	case "i":
		n, err := strconv.Atoi(h.key)
		if err != nil || n < 0 {
			return out
		}
		switch e.K {
		case "arr":
			ok2 := a.K == "tup" && n < len(a.Ts)
			var a2 lat.Ty
			if ok2 {
				a2 = a.Ts[n]
			}
			step(e.Ts[0], a2, ok2)
		case "tup":
			if len(e.Ts) == 0 {
				return out
			}
			switch {
			case p.hasA && a.K == "arr":
				if n < len(e.Ts) {
					step(e.Ts[n], a.Ts[0], true)
				}
			case p.hasA && a.K == "tup":
				if n >= len(e.Ts) && n < len(a.Ts) {
					step(e.Ts[len(e.Ts)-1], a.Ts[n], true)
				}
			case !p.hasA:
				k := n
				if k >= len(e.Ts) {
					k = len(e.Ts) - 1
				}
				step(e.Ts[k], lat.Ty{}, false)
			}
		}
	}
	return out
}

// validPos: the path is a position of the expected type.
func validPos(e lat.Ty, path []pelem) bool {
	return len(reach(eaPair{e: e}, path, false, 64)) > 0
}

func hasMergeKinds(t lat.Ty) bool {
	return lat.Contains(t, func(u lat.Ty) bool { return u.K == "var" || u.K == "data" || u.K == "rdata" })
}

// noMergeT / plainT: the Go twins of `noMerge` / `plain` (lean/Pcore/Proofs/DescribeLeaf.lean, DescribeTm.lean)
func noMergeT(t lat.Ty) bool {
	switch t.K {
	case "var", "data", "rdata", "call":
		return false
	case "arr", "hash", "tup", "opt":
		for _, k := range t.Ts {
			if !noMergeT(k) {
				return false
			}
		}
	case "struct":
		for _, m := range t.Ms {
			if !noMergeT(m.T) {
				return false
			}
		}
	}
	return true
}

func plainT(t lat.Ty) bool {
	switch t.K {
	case "unit", "nu", "opt", "var", "data", "rdata":
		return false
	case "arr", "hash", "tup":
		for _, k := range t.Ts {
			if !plainT(k) {
				return false
			}
		}
	case "struct":
		for _, m := range t.Ms {
			if m.Opt || !plainT(m.T) {
				return false
			}
		}
	}
	return true
}

func sizeOfT(t lat.Ty) (int64, int64, bool) {
	switch t.K {
	case "arr", "hash", "coll":
		return t.Lo, t.Hi, true
	case "tup":
		if t.HasSize {
			return t.Lo, t.Hi, true
		}
		return int64(len(t.Ts)), int64(len(t.Ts)), true
	case "struct":
		req := int64(0)
		for _, m := range t.Ms {
			if !m.Opt {
				req++
			}
		}
		return req, int64(len(t.Ms)), true
	}
	return 0, 0, false
}

func distinctMemberNames(t lat.Ty) bool {
	seen := map[string]bool{}
	for _, m := range t.Ms {
		if seen[m.Name] {
			return false
		}
		seen[m.Name] = true
	}
	return true
}

// unreal: the per-kind soundness conditions (theorems C19_missingKey_real, C19_extraneousKey_real, C19_size_real of the model).
// "" = the mismatch is real.
func unreal(env *lat.Env, e, a lat.Ty, d ditem) string {
	switch d.kind {
	case "mk", "xk", "sz", "cnt":
	default:
		return ""
	}
	pairs := reach(eaPair{e, a, true}, d.path[1:], false, 64)
	anyA := false
	for _, p := range pairs {
		if !p.hasA {
			continue
		}
		anyA = true
		switch d.kind {
		case "mk":
			if p.e.K == "struct" && p.a.K == "struct" {
				m, ok := lastMember(p.e.Ms, d.key)
				_, ok2 := lastMember(p.a.Ms, d.key)
				if !distinctMemberNames(p.e) || ok && !m.Opt && !ok2 {
					return ""
				}
			}
		case "xk":
			if p.e.K == "struct" && p.a.K == "struct" {
				_, ok := lastMember(p.e.Ms, d.key)
				_, ok2 := lastMember(p.a.Ms, d.key)
				if !ok && ok2 {
					return ""
				}
			}
		case "sz", "cnt":
			if hasMergeKinds(e) {
				return "" // a merged size mismatch carries the hull of the members' ranges
			}
			elo, ehi, ok := sizeOfT(p.e)
			alo, ahi, ok2 := sizeOfT(p.a)
			if ok && ok2 && [4]int64{elo, ehi, alo, ahi} == d.r && !(elo <= alo && ahi <= ehi) {
				return ""
			}
		}
	}
	if !anyA {
		return "the path does not lead to a pair of sub-terms of the expected and the actual type"
	}
	switch d.kind {
	case "mk":
		return "no Struct at the path has that key as a required member absent from the actual Struct"
	case "xk":
		return "no actual Struct at the path has that key while the expected Struct lacks it"
	}
	return "the sizes at the path are not the ones reported, or the actual range lies inside the expected one"
}
