package c19

import (
	"fmt"
	"strings"

	"verif/harness/core"
	"verif/harness/lat"
	"verif/harness/sx"

	"github.com/lyraproj/pcore/px"
	"github.com/lyraproj/pcore/types"
)

// Implementation-only op `@sigs (I…) (V…)`: the description of a call that fits none of a set of SIGNATURES
// (px.DescribeSignatures — the text of the argument error a dispatch raises).  I… index the signature pool below, V… are value
// terms (the arguments).  Total: the description is produced without a fault for every set of signatures (parameterless ones,
// repeated and optional parameters, a Struct parameter that names arguments, blocks) and every argument list; it is not
// empty when no signature accepts the arguments; and the error of an actual dispatch with those signatures is the reported
// PCORE_ILLEGAL_ARGUMENTS.  Classes: sigs-fault, sigs-empty.
var sigPool = []string{
	"Callable[0, 0]",
	"Callable[String]",
	"Callable[String, Integer]",
	"Callable[String, Integer, 1, default]",
	"Callable[Integer, 0, default]",
	"Callable[Struct[{a => Integer}]]",
	"Callable[Struct[{a => Integer, Optional[b] => String}], 0, 1]",
	"Callable[Struct[{a => Integer}], String]",
	"Callable[Optional[String], 0, 1]",
	"Callable[String, Callable[1, 1]]",
	"Callable[String, Optional[Callable[1, 1]]]",
	"Callable[Any, Any, 2, 3]",
	"Callable[Hash[String, Integer]]",
	"Callable[Array[String], Integer, 1, 2]",
}

func execSigs(c px.Context, args []sx.Sexp) core.Result {
	if len(args) != 2 || !args[0].IsList || !args[1].IsList {
		return core.Result{Out: "bad-op", Pred: "n/a"}
	}
	var sigs []px.Signature
	var names []string
	for _, e := range args[0].List {
		i, err := e.AsInt()
		if err != nil || i < 0 || int(i) >= len(sigPool) {
			return core.Result{Out: "bad-op", Pred: "n/a"}
		}
		names = append(names, sigPool[i])
	}
	env := lat.EnvOf(c)
	var vals []px.Value
	for _, e := range args[1].List {
		v, err := lat.ParseVal(e)
		if err != nil {
			return core.Result{Out: "bad-op", Pred: "n/a"}
		}
		lv, err := env.BuildVal(v)
		if err != nil {
			return core.Result{Out: "unbuildable", Pred: "n/a"}
		}
		vals = append(vals, lv)
	}
	tags := []string{"sigs"}
	if f := lat.Safely(func() {
		for _, n := range names {
			sigs = append(sigs, c.ParseType(n).(px.Signature))
		}
	}); f != nil {
		return core.Result{Out: "bad-op", Pred: "FAIL harness-bad-op signature pool: " + fmt.Sprint(f)}
	}
	accepted := false
	for _, s := range sigs {
		if s.CallableWith(vals, nil) {
			accepted = true
		}
	}
	var text string
	if f := lat.Safely(func() { text = px.DescribeSignatures(sigs, types.WrapValues(vals).DetailedType(), nil) }); f != nil {
		return core.Result{Out: "fault", Pred: "FAIL sigs-fault describing " + strings.Join(names, " / ") + ": " + oneLineS(fmt.Sprint(f)), NonTrivial: true, Tags: tags}
	}
	out := "empty"
	if text != "" {
		out = "nonempty"
	}
	if !accepted && strings.TrimSpace(text) == "" {
		return core.Result{Out: out, Pred: "FAIL sigs-empty no signature of " + strings.Join(names, " / ") + " accepts the arguments but the description is empty", NonTrivial: true, Tags: tags}
	}
	return core.Result{Out: out, Pred: "ok", NonTrivial: true, Tags: tags}
}

func oneLineS(s string) string {
	s = strings.Replace(s, "\n", " ", -1)
	if len(s) > 300 {
		s = s[:300]
	}
	return s
}

func genSigs(g *core.G, lg *lat.Gen) {
	argLists := [][]lat.Val{
		{}, {lat.VS("a")}, {lat.VI(1)}, {lat.VS("a"), lat.VI(1)}, {lat.VS("a"), lat.VS("x")}, {lat.VS("a"), lat.VI(1), lat.VS("x")},
		{lat.VH(lat.Entry{K: lat.VS("a"), V: lat.VI(1)})}, {lat.VH(lat.Entry{K: lat.VS("b"), V: lat.VI(1)})},
		{lat.VH(lat.Entry{K: lat.VS("a"), V: lat.VS("x")})}, {lat.VH()}, {lat.VH(lat.Entry{K: lat.VI(1), V: lat.VI(1)})},
		{lat.VH(lat.Entry{K: lat.VS("a"), V: lat.VI(1)}), lat.VS("s")}, {lat.VUndef}, {lat.VA(lat.VS("a")), lat.VI(1), lat.VI(2), lat.VI(3)},
		{lat.VI(1), lat.VI(2), lat.VI(3), lat.VI(4)},
	}
	emit := func(idx []int, vals []lat.Val) {
		is := make([]string, len(idx))
		for i, x := range idx {
			is[i] = fmt.Sprint(x)
		}
		vs := make([]string, len(vals))
		for i, v := range vals {
			vs[i] = v.String()
		}
		g.Emit("@sigs (" + strings.Join(is, " ") + ") (" + strings.Join(vs, " ") + ")")
	}
	// every single signature and every pair, against every argument list
	for i := range sigPool {
		for _, al := range argLists {
			emit([]int{i}, al)
		}
		for j := range sigPool {
			if j != i {
				for k, al := range argLists {
					if (i+j+k)%3 == 0 || g.Thorough() {
						emit([]int{i, j}, al)
					}
				}
			}
		}
	}
	for n := 0; n < 200*g.Scale; n++ {
		var idx []int
		for k := 1 + g.Rng.Intn(4); k > 0; k-- {
			idx = append(idx, g.Rng.Intn(len(sigPool)))
		}
		var vals []lat.Val
		for k := g.Rng.Intn(4); k > 0; k-- {
			vals = append(vals, lg.Val(1))
		}
		emit(idx, vals)
	}
}
