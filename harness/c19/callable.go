package c19

import (
	"fmt"
	"strings"

	"verif/harness/core"
	"verif/harness/lat"
	"verif/harness/sx"

	"github.com/lyraproj/pcore/px"
	"github.com/lyraproj/pcore/types"
)

// Callable expectations (describeCallableType: parameter tuple, then return type, then block) — outside the term language of
// the model, so these ops are evaluated on the implementation only.
//
//	@cdesc xE xA        E, A type expressions (hex): px.DescribeMismatch(lat.Subject, E, A)
//	                    → empty|nonempty|fault;  classes: cdesc-panic, cdesc-empty-not-asg, cdesc-nonempty-asg, cdesc-no-subject,
//	                      cdesc-unparsed (the structure reader of descs.go must understand every line: `return ''`, `block ''`, …)
//	@cassert K I M N    the I-th dispatcher lambda of the constructor function K (a Go function: NO declared return type, no block)
//	                    asserted against a Callable derived from its own signature — M: 0 the same parameters, 1 a declared return
//	                    type, 2 return type Any, 3 other parameters, 4 a required block, 5 an optional block — wrapped N: 0 as is,
//	                    1 Optional[T], 2 Variant[Integer, T], 3 NotUndef[T], 4 [lambda] against Array[T], 5 [lambda] against Tuple[T],
//	                    6 {a => lambda} against Struct[{a => T}], 7 {a => lambda} against Hash[String, T]
//	                    → ok|reported <CODE>|fault;  classes: cassert-fault, cassert-silent-on-noninstance,
//	                      cassert-raises-on-instance, cassert-dvt-panic
//
// The streams cover {return type declared / not} × {parameters compatible / not} × {block declared / optional / not} on both
// sides, at top level and nested inside Optional / Variant / Struct member / Hash value / Array / Tuple.

var callableParams = []string{"0, 0", "String", "String, Integer", "String, 1, default", "Integer", "String, Integer, 1, 2"}
var callableReturns = []string{"", "Integer", "String", "Any"}
var callableBlocks = []string{"", "Callable[1, 1]", "Optional[Callable[1, 1]]", "Callable[[1, 1], Integer]"}

// callableText spells Callable[[params, block], return] / Callable[params, block].
func callableText(params, ret, block string) string {
	inner := params
	if block != "" {
		inner += ", " + block
	}
	if ret == "" {
		return "Callable[" + inner + "]"
	}
	return "Callable[[" + inner + "], " + ret + "]"
}

// nestings of an (expected, actual) pair of type expressions
var callableNests = []struct{ name, e, a string }{
	{"top", "%s", "%s"},
	{"opt", "Optional[%s]", "%s"},
	{"var", "Variant[Integer, %s]", "%s"},
	{"var2", "Variant[%s, Callable[[Float], Float]]", "%s"},
	{"struct", "Struct[{cb => %s}]", "Struct[{cb => %s}]"},
	{"struct2", "Struct[{cb => %s, n => Integer}]", "Struct[{cb => %s, n => String}]"},
	{"hash", "Hash[String, %s]", "Struct[{cb => %s}]"},
	{"arr", "Array[%s]", "Tuple[%s]"},
	{"arr2", "Array[%s]", "Array[%s]"},
	{"tup", "Tuple[%s]", "Tuple[%s]"},
	{"tup2", "Tuple[Integer, %s]", "Array[%s, 2, 2]"},
	{"nu", "NotUndef[%s]", "%s"},
	{"type", "Type[%s]", "Type[%s]"},
}

func execCdesc(c px.Context, args []sx.Sexp) core.Result {
	if len(args) != 2 {
		return core.Result{Out: "bad-op", Pred: "FAIL harness-bad-op cdesc"}
	}
	eb, err1 := args[0].AsBytes()
	ab, err2 := args[1].AsBytes()
	if err1 != nil || err2 != nil {
		return core.Result{Out: "bad-op", Pred: "FAIL harness-bad-op cdesc"}
	}
	var e, a px.Type
	if f := lat.Safely(func() { e, a = c.ParseType(string(eb)), c.ParseType(string(ab)) }); f != nil {
		if lat.Classify(f) != "fault" { // a reported refusal of the type expression (Struct[{a => Like}] cannot be resolved)
			return core.Result{Out: "refused", Pred: "n/a", Tags: []string{"op:cdesc", "cdesc:refused"}}
		}
		return core.Result{Out: "fault", Pred: "FAIL cdesc-parse-fault " + string(eb) + " / " + string(ab) + ": " + firstLine(fmt.Sprint(f)), NonTrivial: true}
	}
	tags := []string{"op:cdesc"}
	var text string
	if f := lat.Safely(func() { text = px.DescribeMismatch(lat.Subject, e, a) }); f != nil {
		if cl := lat.Classify(f); cl != "fault" {
			// a REPORTED error (the default Like type cannot be resolved, …) is pcore's way of refusing, not a crash
			return core.Result{Out: cl, Pred: "n/a", NonTrivial: true, Tags: append(tags, "cdesc:"+strings.Replace(cl, " ", "-", -1))}
		}
		return core.Result{Out: "fault", Pred: "FAIL cdesc-panic describing " + string(ab) + " against " + string(eb) + ": " + firstLine(fmt.Sprint(f)), NonTrivial: true, Tags: tags}
	}
	out := "nonempty"
	if text == "" {
		out = "empty"
	}
	res := func(pred string) core.Result { return core.Result{Out: out, Pred: pred, NonTrivial: true, Tags: tags} }
	asg, f := lat.SafeAsg(e, a)
	if f != nil {
		return res("FAIL panic IsAssignable")
	}
	ds, bad := parseDescription(text, "function "+lat.Subject+":")
	for _, d := range ds {
		if d.kind == "utr" {
			// the expected type holds an unresolved type reference: `describe` reports that before anything else, whatever the
			// actual type (such an expectation is outside the property's quantifier; no crash and a readable structure are still required)
			tags = append(tags, "ckind:utr")
			if len(ds) != 1 || !strings.Contains(text, lat.Subject) {
				return res("FAIL cdesc-utr-shape an unresolved reference is not reported as the one mismatch naming the subject: " + firstLine(text))
			}
			return core.Result{Out: out, Pred: "n/a", NonTrivial: true, Tags: tags}
		}
	}
	switch {
	case text == "" && !asg:
		return res("FAIL cdesc-empty-not-asg nothing to describe although " + string(eb) + " does not accept " + string(ab))
	case text != "" && asg:
		return res("FAIL cdesc-nonempty-asg a mismatch is described although the actual type is assignable: " + firstLine(text))
	case text != "" && !strings.Contains(text, lat.Subject):
		return res("FAIL cdesc-no-subject the description does not name its subject: " + firstLine(text))
	case bad != "":
		return res("FAIL cdesc-unparsed the harness cannot read the structure of: " + firstLine(bad))
	}
	for _, d := range ds {
		tags = append(tags, "ckind:"+d.kind)
		if n := len(d.path); n > 1 {
			tags = append(tags, "clast:"+d.path[n-1].tag)
		}
	}
	return res("ok")
}

// `@tassert xT V`: px.AssertInstance(lat.Subject, T, V) for a type expression T (second-tier types included) and a value term V.
// Classes: tassert-fault, tassert-silent-on-noninstance, tassert-raises-on-instance, tassert-no-subject, tassert-dvt-panic.
func execTassert(c px.Context, args []sx.Sexp) core.Result {
	bad := core.Result{Out: "bad-op", Pred: "FAIL harness-bad-op tassert"}
	if len(args) != 2 {
		return bad
	}
	tb, err := args[0].AsBytes()
	if err != nil {
		return bad
	}
	vt, err := lat.ParseVal(args[1])
	if err != nil {
		return bad
	}
	var t px.Type
	var v px.Value
	if f := lat.Safely(func() {
		t = c.ParseType(string(tb))
		v, err = lat.EnvOf(c).BuildVal(vt)
	}); f != nil || err != nil {
		if f != nil && lat.Classify(f) != "fault" {
			return core.Result{Out: "refused", Pred: "n/a", Tags: []string{"op:tassert", "tassert:refused"}}
		}
		return core.Result{Out: "bad-op", Pred: "FAIL harness-bad-op tassert: " + firstLine(fmt.Sprint(f, err))}
	}
	tags := []string{"op:tassert"}
	out, detail := "ok", ""
	if f := lat.Safely(func() { px.AssertInstance(lat.Subject, t, v) }); f != nil {
		out, detail = lat.Classify(f), firstLine(fmt.Sprint(f))
	}
	res := func(pred string) core.Result { return core.Result{Out: out, Pred: pred, NonTrivial: true, Tags: tags} }
	if f := lat.Safely(func() { px.DetailedValueType(v) }); f != nil {
		return res("FAIL tassert-dvt-panic " + firstLine(fmt.Sprint(f)))
	}
	var inst bool
	if f := lat.Safely(func() { inst = px.IsInstance(t, v) }); f != nil {
		if lat.Classify(f) != "fault" { // IsInstance itself refuses (Like): nothing to compare with
			return core.Result{Out: out, Pred: "n/a", NonTrivial: true, Tags: append(tags, "tassert:isinstance-reported")}
		}
		return res("FAIL panic IsInstance")
	}
	mismatch := "reported " + string(px.TypeMismatch)
	switch {
	case out == "ok" && !inst:
		return res("FAIL tassert-silent-on-noninstance " + string(tb))
	case out == mismatch && inst:
		return res("FAIL tassert-raises-on-instance " + string(tb))
	case out != "ok" && out != mismatch:
		return res("FAIL tassert-fault asserting against " + string(tb) + ": " + out + " " + detail)
	case out == mismatch && !strings.Contains(detail, lat.Subject):
		// the raised error has nothing to say when the expected type ACCEPTS the detailed type of a value it does not contain
		// (known findings of C01/C04 on Iterable seen through the assertion): its own class
		var dt px.Type
		var text string
		if f := lat.Safely(func() { dt = px.DetailedValueType(v); text = px.DescribeMismatch(lat.Subject, t, dt) }); f == nil && text == "" && px.IsAssignable(t, dt) {
			return res("FAIL tassert-empty-description the value is not an instance of " + string(tb) + " but its detailed type " + dt.String() + " is accepted: the mismatch error says nothing")
		}
		return res("FAIL tassert-no-subject " + detail)
	}
	tags = append(tags, "tans:"+strings.Replace(out, " ", "", -1))
	return res("ok")
}

var lambdaPool = []struct {
	ctor string
	idx  int
}{{"Binary", 1}, {"Binary", 0}, {"Timestamp", 0}, {"Sensitive", 0}, {"Regexp", 0}, {"Timespan", 0}, {"Integer", 0}, {"URI", 0}, {"SemVer", 1}}

func execCassert(c px.Context, args []sx.Sexp) core.Result {
	bad := core.Result{Out: "bad-op", Pred: "FAIL harness-bad-op cassert"}
	if len(args) != 4 {
		return bad
	}
	var n [4]int64
	for i := range n {
		v, err := args[i].AsInt()
		if err != nil || v < 0 {
			return bad
		}
		n[i] = v
	}
	if int(n[0]) >= len(lambdaPool) {
		return bad
	}
	tags := []string{"op:cassert", fmt.Sprintf("cmode:%d", n[2]), fmt.Sprintf("cnest:%d", n[3])}
	var lambda px.Lambda
	var t px.Type
	var v px.Value
	if f := lat.Safely(func() {
		fn, ok := px.Load(c, px.NewTypedName(px.NsConstructor, lambdaPool[n[0]].ctor))
		if !ok {
			return
		}
		ds := fn.(px.Function).Dispatchers()
		lambda = ds[(lambdaPool[n[0]].idx+int(n[1]))%len(ds)]
		sg := lambda.PType().(*types.CallableType)
		var ct px.Type
		switch n[2] {
		case 0:
			ct = types.NewCallableType(sg.ParametersType(), nil, nil)
		case 1:
			ct = types.NewCallableType(sg.ParametersType(), types.DefaultBinaryType(), nil)
		case 2:
			ct = types.NewCallableType(sg.ParametersType(), types.DefaultAnyType(), nil)
		case 3:
			ct = types.NewCallableType(types.NewTupleType([]px.Type{types.DefaultStringType(), types.DefaultStringType(), types.DefaultStringType()}, nil), nil, nil)
		case 4:
			ct = types.NewCallableType(sg.ParametersType(), nil, c.ParseType("Callable[1, 1]"))
		default:
			ct = types.NewCallableType(sg.ParametersType(), types.DefaultIntegerType(), c.ParseType("Optional[Callable[1, 1]]"))
		}
		t, v = ct, lambda
		switch n[3] {
		case 1:
			t = types.NewOptionalType(ct)
		case 2:
			t = types.NewVariantType(types.DefaultIntegerType(), ct)
		case 3:
			t = types.NewNotUndefType(ct)
		case 4:
			t, v = types.NewArrayType(ct, nil), types.WrapValues([]px.Value{lambda})
		case 5:
			t, v = types.NewTupleType([]px.Type{ct}, nil), types.WrapValues([]px.Value{lambda})
		case 6:
			t = types.NewStructType([]*types.StructElement{types.NewStructElement(types.WrapString("a"), ct)})
			v = types.WrapHash([]*types.HashEntry{types.WrapHashEntry2("a", lambda)})
		case 7:
			t = types.NewHashType(types.DefaultStringType(), ct, nil)
			v = types.WrapHash([]*types.HashEntry{types.WrapHashEntry2("a", lambda)})
		}
	}); f != nil || lambda == nil {
		return core.Result{Out: "bad-op", Pred: "FAIL harness-bad-op cassert: " + firstLine(fmt.Sprint(f))}
	}
	out := "ok"
	detail := ""
	if f := lat.Safely(func() { px.AssertInstance(lat.Subject, t, v) }); f != nil {
		out = lat.Classify(f)
		detail = firstLine(fmt.Sprint(f))
	}
	res := func(pred string) core.Result { return core.Result{Out: out, Pred: pred, NonTrivial: true, Tags: tags} }
	if f := lat.Safely(func() { px.DetailedValueType(v) }); f != nil {
		return res("FAIL cassert-dvt-panic " + firstLine(fmt.Sprint(f)))
	}
	inst, f := lat.SafeInst(t, v)
	if f != nil {
		return res("FAIL panic IsInstance")
	}
	mismatch := "reported " + string(px.TypeMismatch)
	switch {
	case out == "ok" && !inst:
		return res("FAIL cassert-silent-on-noninstance " + t.String())
	case out == mismatch && inst:
		return res("FAIL cassert-raises-on-instance " + t.String())
	case out != "ok" && out != mismatch:
		return res("FAIL cassert-fault asserting a lambda " + lambda.PType().String() + " against " + t.String() + ": " + out + " " + detail)
	case out == mismatch && !strings.Contains(detail, lat.Subject):
		return res("FAIL cassert-no-subject " + detail)
	}
	tags = append(tags, "cans:"+strings.Replace(out, " ", "", -1))
	return res("ok")
}

func genCallable(g *core.G) {
	hexs := func(s string) string { return sx.Str(s).String() }
	var forms []string
	for _, p := range callableParams {
		for _, r := range callableReturns {
			for _, b := range callableBlocks {
				forms = append(forms, callableText(p, r, b))
			}
		}
	}
	forms = append(forms, "Callable", "Callable[[0, 0], Integer]")
	// every (expected, actual) pair of Callable forms at top level; nested: every pair in the thorough tier, a third of them in the
	// quick tier (a different third for every nesting, all of them over the nestings together)
	for i, e := range forms {
		for j, a := range forms {
			for k, nest := range callableNests {
				if k == 0 || g.Thorough() || (i+j+k)%3 == 0 {
					g.Emit("@cdesc " + hexs(fmt.Sprintf(nest.e, e)) + " " + hexs(fmt.Sprintf(nest.a, a)))
				}
			}
		}
		// a Callable expectation against something that is no Callable, and the reverse
		for _, other := range []string{"Integer", "Undef", "Type[Callable]", "Struct[{cb => Integer}]", "Any", "Variant[Integer, String]"} {
			g.Emit("@cdesc " + hexs(e) + " " + hexs(other))
			g.Emit("@cdesc " + hexs(other) + " " + hexs(e))
		}
	}
	// expectations with an unresolved type reference (the scan in front of the guard of `describe`) and Init expectations
	// (describeInitType: one description per signature of the constructor, below a `signature` path element)
	refs := []string{"No::Such", "Array[No::Such]", "Variant[Integer, No::Such]", "Optional[No::Such]", "Struct[{a => No::Such}]",
		"Hash[String, Tuple[Integer, No::Such]]", "Callable[[No::Such], Integer]"}
	inits := []string{"Init[Integer]", "Init[String]", "Init[Timespan]", "Init[Binary]", "Init[Boolean]", "Init[Float]", "Init[Array[Integer]]",
		"Init[Timestamp]", "Init[SemVer]", "Init[Regexp]", "Optional[Init[Integer]]", "Variant[Init[Timespan], Undef]",
		"Struct[{a => Init[Integer]}]", "Array[Init[Binary]]", "Tuple[Init[Integer], Init[String]]"}
	others := []string{"Integer", "String", "Float", "Undef", "Regexp", "Array[Integer]", "Array[String]", "Hash[String, Integer]", "Binary",
		"Struct[{a => Regexp}]", "Struct[{a => Integer}]", "Tuple[Regexp]", "Tuple[Integer, Regexp]", "Tuple[String, String]", "Any", "No::Such",
		"Struct[{string => String[1]}]", "Struct[{string => Integer}]", "Tuple[Integer, Integer, Integer, Integer]", "Variant[String, Regexp]"}
	for _, e := range append(refs, inits...) {
		for _, a := range others {
			g.Emit("@cdesc " + hexs(e) + " " + hexs(a))
		}
	}
	// the second-tier types and the parameterless defaults as EXPECTED types (describe walks the expected type with Accept before
	// anything else), at top level and nested; against themselves, each other and ordinary types; and asserted against values
	tier2 := []string{"Init", "Init[Integer]", "Init[Integer, 16]", "Init[Timespan, '%H']", "Init[String]", "Callable", "Runtime", "Iterator",
		"Iterator[Integer]", "Like", "TypeSet", "URI", "URI['http://x']", "SemVer", "SemVer['>=1.0.0']", "SemVerRange", "Timestamp",
		"Timestamp['2000-01-01']", "TypeReference['X']", "TypeReference", "Unit", "Type", "Iterable", "Object", "Default", "Timespan", "NotUndef",
		"Sensitive", "Collection", "Deferred", "TypeAlias", "Pcore::AnyType", "Binary", "Regexp", "Optional", "Variant", "Tuple", "Struct", "Enum", "Pattern"}
	nests2 := []string{"%s", "Type[%s]", "Array[%s]", "Optional[%s]", "Variant[%s, String]", "Struct[{a => %s}]", "Hash[String, %s]", "Tuple[%s]",
		"NotUndef[%s]", "Array[Optional[%s]]", "Variant[Integer, Struct[{a => Array[%s]}]]"}
	actuals2 := []string{"Integer", "String", "Undef", "Any", "Init", "Callable", "Type[Integer]", "Array[Integer]", "Tuple[String]", "Struct[{a => Integer}]",
		"Hash[String, Integer]", "Optional[String]", "Timestamp", "SemVer", "URI", "Type[Init]", "Array[Init]", "Binary", "Default", "Variant[Integer, String]"}
	vals2 := []string{"undef", "default", "(i 1)", "(s x61)", "(a (i 1))", "(a)", "(h ((s x61) (i 1)))", "(h)", "(t (int 1 2))", "(t any)", "(f (1 0))", "(b t)",
		"(a (t str))", "(h ((s x61) (t str)))", "(sv (i 1))", "(binv x61)", "(rxv x61)", "(ts 5)", "(o 1)"}
	for i, e := range tier2 {
		for j, n := range nests2 {
			et := fmt.Sprintf(n, e)
			g.Emit("@cdesc " + hexs(et) + " " + hexs(et))
			for k, a := range actuals2 {
				if g.Thorough() || j == 0 || (i+j+k)%4 == 0 {
					g.Emit("@cdesc " + hexs(et) + " " + hexs(a))
				}
			}
			for k, v := range vals2 {
				if g.Thorough() || j == 0 || (i+j+k)%4 == 0 {
					g.Emit("@tassert " + hexs(et) + " " + v)
				}
			}
		}
	}
	for l := range lambdaPool {
		for shift := 0; shift < 2; shift++ {
			for m := 0; m < 6; m++ {
				for n := 0; n < 8; n++ {
					g.Emit(fmt.Sprintf("@cassert %d %d %d %d", l, shift, m, n))
				}
			}
		}
	}
}
