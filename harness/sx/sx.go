// Package sx is the Go twin of lean/Driver/Sexp.lean: the s-expression syntax of op lines.
package sx

import (
	"encoding/hex"
	"fmt"
	"strconv"
	"strings"
)

// Sexp is an atom (List == nil, IsList false) or a list.
type Sexp struct {
	Atom   string
	List   []Sexp
	IsList bool
}

func A(s string) Sexp           { return Sexp{Atom: s} }
func L(xs ...Sexp) Sexp         { return Sexp{List: xs, IsList: true} }
func Int(i int64) Sexp          { return A(strconv.FormatInt(i, 10)) }
func Str(s string) Sexp         { return A("x" + hex.EncodeToString([]byte(s))) }
func Bytes(b []byte) Sexp       { return A("x" + hex.EncodeToString(b)) }
func Bool(b bool) Sexp          { return A(B(b)) }
func T(tag string, xs ...Sexp) Sexp { return L(append([]Sexp{A(tag)}, xs...)...) }

// B renders a boolean the way both sides print it.
func B(b bool) string {
	if b {
		return "t"
	}
	return "f"
}

func (s Sexp) String() string {
	var sb strings.Builder
	s.write(&sb)
	return sb.String()
}

func (s Sexp) write(sb *strings.Builder) {
	if !s.IsList {
		sb.WriteString(s.Atom)
		return
	}
	sb.WriteByte('(')
	for i, x := range s.List {
		if i > 0 {
			sb.WriteByte(' ')
		}
		x.write(sb)
	}
	sb.WriteByte(')')
}

// Tag returns the head atom of a list, or "" .
func (s Sexp) Tag() string {
	if s.IsList && len(s.List) > 0 && !s.List[0].IsList {
		return s.List[0].Atom
	}
	return ""
}

// Args returns the elements after the head.
func (s Sexp) Args() []Sexp {
	if s.IsList && len(s.List) > 0 {
		return s.List[1:]
	}
	return nil
}

func (s Sexp) AsInt() (int64, error) {
	if s.IsList {
		return 0, fmt.Errorf("not an int: %s", s)
	}
	return strconv.ParseInt(s.Atom, 10, 64)
}

func (s Sexp) MustInt() int64 {
	i, err := s.AsInt()
	if err != nil {
		panic(err)
	}
	return i
}

func (s Sexp) AsBytes() ([]byte, error) {
	if s.IsList || !strings.HasPrefix(s.Atom, "x") {
		return nil, fmt.Errorf("not a hex string: %s", s)
	}
	return hex.DecodeString(s.Atom[1:])
}

func (s Sexp) MustStr() string {
	b, err := s.AsBytes()
	if err != nil {
		panic(err)
	}
	return string(b)
}

func (s Sexp) MustBool() bool {
	if s.IsList || (s.Atom != "t" && s.Atom != "f") {
		panic(fmt.Errorf("not a bool: %s", s))
	}
	return s.Atom == "t"
}

// Parse reads a whole line into a sequence of s-expressions.
func Parse(line string) ([]Sexp, error) {
	var stack [][]Sexp
	cur := []Sexp{}
	i := 0
	n := len(line)
	for i < n {
		c := line[i]
		switch {
		case c == ' ' || c == '\t' || c == '\n' || c == '\r':
			i++
		case c == '(':
			stack = append(stack, cur)
			cur = []Sexp{}
			i++
		case c == ')':
			if len(stack) == 0 {
				return nil, fmt.Errorf("unbalanced )")
			}
			top := stack[len(stack)-1]
			stack = stack[:len(stack)-1]
			cur = append(top, Sexp{List: cur, IsList: true})
			i++
		default:
			j := i
			for j < n && line[j] != ' ' && line[j] != '\t' && line[j] != '\n' && line[j] != '\r' && line[j] != '(' && line[j] != ')' {
				j++
			}
			cur = append(cur, A(line[i:j]))
			i = j
		}
	}
	if len(stack) != 0 {
		return nil, fmt.Errorf("unbalanced (")
	}
	return cur, nil
}
