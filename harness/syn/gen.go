package syn

import (
	"fmt"
	"math"
	"math/rand"
	"strconv"
	"strings"
)

// SeedExprs are hand-written valid expressions that exercise every syntactic form of the parser and every
// parameter form of the core type constructors; the C06 generator mutates them, the C05 generator round-trips them.
var SeedExprs = []string{
	"Integer[1, 5]", "Integer[default, 5]", "Integer[-9223372036854775808, 9223372036854775807]", "Integer[0x10, 0x20]",
	"Float[1.5, 2.5e3]", "Float[-1.0E-3]", "Boolean[true]", "String[1, 10]", "String['it\\'s']", "String[Integer[1, 2]]",
	"Enum['a', 'b']", "Enum[a, b, true]", "Pattern[/^a.*\\/$/, 'b+']", "Regexp[/a\\.b/]",
	"Array[String, 1, 3]", "Array[Integer[1, 2]]", "Hash[String, Integer, 1, 5]", "Hash[String, Integer, 1]", "Collection[1, 2]",
	"Tuple[String, Integer, 1, 5]", "Tuple[String, 3]", "Tuple[[String], 3]", "Tuple[String, 1, default]",
	"Struct[{a => Integer, Optional[b] => String, 'c d' => Optional[Float], NotUndef[e] => Any}]",
	"Struct[{String['a'] => Optional[Integer]}]",
	"Variant[Integer, String, Undef]", "Optional[String]", "Optional['x']", "NotUndef['y']", "NotUndef[Data]",
	"Type[Integer[1, 2]]", "Sensitive[String]", "Iterable[Integer]", "Iterator[String]",
	"Callable[String, Integer, 1, 2]", "Callable[[String], Integer]", "Callable[0, 0, Callable[1, 1]]", "Callable[String, Optional[Callable]]",
	"Runtime['go', 'string']", "Runtime[go, /x/]", "TypeReference['My::Thing']", "My::Thing", "My::Thing[1, 2]",
	"Init[Integer]", "Init[String, 1, 'a']", "Like[Integer, 'a']",
	"Timestamp['2000-01-01T00:00:00.000Z']", "Timespan[{hours => 1}, {hours => 2}]", "SemVer['>=1.0.0']", "SemVerRange", "URI['http://example.com']",
	"URI[{scheme => 'http'}]", "Binary", "Scalar", "ScalarData", "Numeric", "Data", "RichData", "Any", "Undef", "Default", "Unit", "Object", "TypeSet",
	"Object[{name => 'My::O', attributes => {a => Integer, b => {type => String, value => 'x'}}}]",
	"TypeSet[{pcore_version => '1.0.0', version => '1.0.0', types => {A => Integer}}]",
	"type X = Array[X]", "type Y = {attributes => {a => Integer}}", "type Z = Object[{attributes => {a => Integer}}]", "type W = Y{attributes => {b => String}}",
	"type => Integer", "a => 1", "Foo => [1]",
	"[1, 2.5, 'x', \"y\\n\\t\\\\\\\"\\$\", /r\\/x/, true, false, undef, default, word, A::B, a::b_c]",
	"{a => 1, 'b' => [2, {c => 3}], 4 => 5.0, [1] => {}}", "[a => 1, b => 2, 3, c => 4]", "[a => b => c]", "(1, 2)", "(a => 1)",
	"Foo(1, 'x')", "Foo::Bar(a => 1, b => 2)", "Deferred(foo, 1, 2)", "Deferred('$x')", "Deferred('')", "Binary('AQID')", "Foo{a => 1}", "Foo::Bar{}",
	"[1, 2, ]", "{a => 1, }", "# comment\n1", "1 # trailing", "\"\\u{1F600}\\u{e9}\"", "'a\\\\b\\'c'", "-0x7fffffffffffffff", "+5", "0777", "1.0e+10", "0.5E-7",
	"Array[Deferred(x)]", "Array[Foo(1)]", "Integer[Foo]", "Optional[1]", "Variant[]", "String[a, b, c]", "Hash[1]", "Enum[1]", "Struct[1]", "Struct[{1 => 2}]",
	"Tuple[1]", "Tuple[String, 1, 2, 3]", "Callable[1]", "Callable[[1], 2]", "Type[1]", "Runtime[1]", "Init[1]", "Regexp['(']", "Pattern['[']", "Pattern[1]",
	"Array[1, 2, 3, 4]", "Hash[String, Integer, 1, 2, 3]", "Float[a]", "Boolean[1]", "Boolean[true, false]", "Timestamp['x']", "Timespan['x']", "SemVer['x']",
	"URI[1]", "Object[1]", "Object[{}]", "Object[{name => 1}]", "TypeSet[{}]", "TypeSet[1, 2]", "Like[1]", "TypeReference[1]", "Iterable[1]", "Iterator[1]",
	"Sensitive[1]", "NotUndef[1]", "Collection[a]", "Any[1]", "Undef[1]", "Data[1]", "Binary[1]", "Default[1]", "Scalar[1]", "Numeric[1]", "Unit[1]",
}

// TypeNames: every name in the core type table (plus two names that are not).
var TypeNames = []string{"Any", "Array", "Binary", "Boolean", "Callable", "Collection", "Data", "Default", "Deferred", "Enum", "Float", "Hash", "Init", "Integer",
	"Iterable", "Iterator", "Like", "NotUndef", "Numeric", "Object", "Optional", "Pattern", "Regexp", "RichData", "Runtime", "Scalar", "ScalarData", "SemVer",
	"SemVerRange", "Sensitive", "String", "Struct", "Timespan", "Timestamp", "Tuple", "Type", "TypeAlias", "TypeReference", "TypeSet", "Undef", "Unit", "URI", "Variant",
	"My::Thing", "Catalogentry"}

// ArgReps: one representative per kind of type argument (strings and hashes are px.List values too, which is what the
// creators' "a single Array argument holds the arguments" idiom trips over).
var ArgReps = []string{"1", "-1", "0", "'ab'", "''", "'x'", "default", "undef", "true", "1.5", "/x/", "[]", "[1]", "[String]", "[String, 1]", "{}", "{a => 1}",
	"{a => String}", "String", "Integer[1, 2]", "Foo", "Callable", "Optional[Callable]", "Deferred(x)", "Deferred('')", "Foo(1)", "Type[Integer]", "Tuple[String]", "9223372036854775807"}

// ParamTypeNames: the parameterized core types, each with the argument leaves that matter to its creator in addition to the
// common ones (ShapeLeaves)
var ParamTypeNames = []struct {
	Name  string
	Extra []string
}{
	{"Enum", []string{"false", "'B'"}}, {"Pattern", []string{"/x/", "Regexp[/x/]"}}, {"Regexp", []string{"/x/"}}, {"Variant", []string{"Integer[1, 2]"}},
	{"Tuple", []string{"Integer[1, 2]", "-1"}}, {"Array", []string{"Integer[1, 2]", "-1"}}, {"Hash", []string{"Integer[1, 2]", "-1"}}, {"Collection", []string{"Integer[1, 2]", "-1"}},
	{"Struct", []string{"{a => String}", "{Optional[a] => 1}"}}, {"Callable", []string{"Callable", "Optional[Callable]", "Tuple[String]"}}, {"Integer", []string{"-1"}}, {"Float", []string{"1.5"}},
	{"String", []string{"Integer[1, 2]"}}, {"Boolean", []string{"false"}}, {"Optional", nil}, {"NotUndef", nil}, {"Type", nil}, {"Sensitive", nil}, {"Iterable", nil}, {"Iterator", nil},
	{"Init", []string{"{a => 1}"}}, {"Runtime", []string{"/x/"}}, {"Like", nil}, {"TypeReference", nil}, {"Timestamp", []string{"'2000-01-01'"}}, {"Timespan", []string{"{hours => 1}"}},
	{"SemVer", []string{"'1.x'"}}, {"SemVerRange", nil}, {"URI", []string{"{scheme => 'http'}"}}, {"Object", []string{"{}"}}, {"TypeSet", []string{"{}"}}, {"Binary", nil}, {"Any", nil},
}

// ShapeLeaves: one leaf per kind of argument the creators distinguish (string, Boolean, Integer, type, default)
var ShapeLeaves = []string{"'a'", "true", "1", "String", "default"}

// ArgShapes enumerates the odd SHAPES of an argument list over the given leaves: the array form, the array form followed by
// further arguments, a nested array, an array in second position, two arrays — every leaf at every position (so that a
// flag / size / non-string shows up at each index of the flattened and of the un-flattened list).  deep adds the
// five-leaf shape `[x, y, z], w, v`.
func ArgShapes(leaves []string, deep bool) []string {
	var out []string
	var rec func(n int, cur []string, f func(xs []string))
	rec = func(n int, cur []string, f func(xs []string)) {
		if n == 0 {
			f(cur)
			return
		}
		for _, l := range leaves {
			rec(n-1, append(cur, l), f)
		}
	}
	add := func(n int, format func(xs []string) string) {
		rec(n, nil, func(xs []string) { out = append(out, format(xs)) })
	}
	add(1, func(x []string) string { return "[" + x[0] + "]" })
	add(1, func(x []string) string { return "[[" + x[0] + "]]" })
	add(2, func(x []string) string { return "[" + x[0] + ", " + x[1] + "]" })
	add(2, func(x []string) string { return "[" + x[0] + "], " + x[1] })
	add(2, func(x []string) string { return "[" + x[0] + "], [" + x[1] + "]" })
	add(2, func(x []string) string { return "[], " + x[0] + ", " + x[1] })
	add(3, func(x []string) string { return "[" + x[0] + ", " + x[1] + "], " + x[2] })
	add(3, func(x []string) string { return "[[" + x[0] + ", " + x[1] + "]], " + x[2] })
	add(3, func(x []string) string { return x[0] + ", [" + x[1] + ", " + x[2] + "]" })
	add(3, func(x []string) string { return "[" + x[0] + ", " + x[1] + ", " + x[2] + "]" })
	add(3, func(x []string) string { return "[" + x[0] + "], " + x[1] + ", " + x[2] })
	add(3, func(x []string) string { return x[0] + ", " + x[1] + ", " + x[2] })
	return out
}

// ArgShapes4 enumerates the four- and five-leaf shapes (used over the common leaves only)
func ArgShapes4(leaves []string, deep bool) []string {
	var out []string
	var rec func(n int, cur []string, f func(xs []string))
	rec = func(n int, cur []string, f func(xs []string)) {
		if n == 0 {
			f(cur)
			return
		}
		for _, l := range leaves {
			rec(n-1, append(cur, l), f)
		}
	}
	rec(4, nil, func(x []string) {
		out = append(out, "["+x[0]+", "+x[1]+"], "+x[2]+", "+x[3], "["+x[0]+", "+x[1]+", "+x[2]+"], "+x[3], x[0]+", "+x[1]+", "+x[2]+", "+x[3])
	})
	if deep {
		rec(5, nil, func(x []string) {
			out = append(out, "["+x[0]+", "+x[1]+", "+x[2]+"], "+x[3]+", "+x[4], "["+x[0]+", "+x[1]+"], "+x[2]+", "+x[3]+", "+x[4])
		})
	}
	return out
}

var scalarTypes = []string{"Any", "Undef", "Default", "Scalar", "ScalarData", "Numeric", "Data", "RichData", "Integer", "Float", "Boolean", "String",
	"Binary", "Regexp", "Pattern", "Enum", "Timespan", "Timestamp", "SemVer", "SemVerRange", "URI", "Collection", "Array", "Hash", "Tuple", "Struct",
	"Variant", "Optional", "NotUndef", "Type", "Sensitive", "Iterable", "Iterator", "Callable", "Runtime", "Object", "Unit", "Init", "My::Thing", "Catalogentry"}

// BoundaryInts: the integers at and around the ±2^63 boundaries and the shared-instance limits of NewIntegerType.
var BoundaryInts = []int64{0, 1, -1, 2, 5, 10, 255, 256, math.MaxInt32, math.MinInt32, math.MaxInt64, math.MaxInt64 - 1, math.MinInt64, math.MinInt64 + 1}

func genInt(r *rand.Rand) int64 {
	if r.Intn(3) == 0 {
		return BoundaryInts[r.Intn(len(BoundaryInts))]
	}
	return int64(r.Intn(20)) - 3
}

func intText(r *rand.Rand, i int64) string {
	switch r.Intn(8) {
	case 0:
		if i >= 0 {
			return "0x" + strconv.FormatInt(i, 16)
		}
	case 1:
		if i > 0 {
			return "0" + strconv.FormatInt(i, 8)
		}
	}
	return strconv.FormatInt(i, 10)
}

func genRange(r *rand.Rand, lowNonNeg bool) string {
	a := genInt(r)
	if lowNonNeg && a < 0 {
		a = -a
		if a < 0 {
			a = 0
		}
	}
	switch r.Intn(5) {
	case 0:
		return intText(r, a)
	case 1:
		return "default, " + intText(r, a)
	case 2:
		return intText(r, a) + ", default"
	}
	b := a + int64(r.Intn(5))
	if b < a {
		b = a
	}
	return intText(r, a) + ", " + intText(r, b)
}

// HostileStrings: the string alphabet of DESIGN §4 C05 (quotes, backslashes, `$`, control characters, U+00E9, U+FFFD,
// U+1F600, runs of backslashes before a quote) as ready-made samples; GenString draws random words over the alphabet.
var HostileAlphabet = []string{"a", "B", "0", " ", "'", "\"", "\\", "$", "\n", "\t", "\r", "\x01", "\x1f", "\x7f", "\u00e9", "\ufffd", "\U0001F600", "/", "{", "}", "u", "n", "\x00", "#", "=>"}

var HostileStrings = []string{"", "a", "it's", "say \"hi\"", "a\\b", "a\\", "\\", "\\\\", "\\'", "\\\\'", "\\\\\\'", "'\\", "\\n", "\\u{41}", "$x", "${x}", "a\nb", "\t", "\r\n",
	"\x01", "\x1f", "\x7f", "\u00e9", "\ufffd", "\U0001F600", "a/b", "\x00", "\x00a", "a b", "#x", "\\\"", "\"\\", "\n'", "\n\"", "\n\\", "\n$", "\u0080", "\u2028", "\ud7ff\ue000"}

func GenString(r *rand.Rand) string {
	if r.Intn(3) == 0 {
		return HostileStrings[r.Intn(len(HostileStrings))]
	}
	n := r.Intn(6)
	var sb strings.Builder
	for i := 0; i < n; i++ {
		sb.WriteString(HostileAlphabet[r.Intn(len(HostileAlphabet))])
	}
	return sb.String()
}

// simple, always-lexable single-quoted rendering used by the *text* generators (not the implementation's quoting)
func sq(s string) string {
	var sb strings.Builder
	sb.WriteByte('\'')
	for _, c := range s {
		switch c {
		case '\'', '\\':
			sb.WriteByte('\\')
			sb.WriteRune(c)
		case '\n':
			sb.WriteString("n") // single-quoted text cannot hold a newline; drop to a letter
		case 0, '\ufffd':
			sb.WriteByte('?')
		default:
			sb.WriteRune(c)
		}
	}
	sb.WriteByte('\'')
	return sb.String()
}

var words = []string{"a", "b", "c", "key", "name", "x_y", "a1", "mode"}
var regexps = []string{"/a/", "/^a.*$/", "/a\\/b/", "/[a-z]+/", "/\\d+/", "/a|b/", "/\\\\/", "/(x)(y)?/", "/\\Aab\\z/"}

func genKey(r *rand.Rand) string {
	switch r.Intn(6) {
	case 0:
		return sq(GenString(r))
	case 1:
		return "Optional[" + words[r.Intn(len(words))] + "]"
	case 2:
		return "NotUndef[" + sq(words[r.Intn(len(words))]) + "]"
	case 3:
		return "Optional[" + sq(GenString(r)) + "]"
	}
	return words[r.Intn(len(words))]
}

// GenTypeText draws a type expression from a grammar of all core type constructors with their parameter forms.
// Mostly valid; some parameter lists are rejected by the creators (reported errors), which is part of the point.
func GenTypeText(r *rand.Rand, depth int) string {
	if depth <= 0 || r.Intn(5) == 0 {
		return scalarTypes[r.Intn(len(scalarTypes))]
	}
	sub := func() string { return GenTypeText(r, depth-1) }
	list := func(min, max int) string {
		n := min + r.Intn(max-min+1)
		xs := make([]string, n)
		for i := range xs {
			xs[i] = sub()
		}
		return strings.Join(xs, ", ")
	}
	switch r.Intn(34) {
	case 0:
		return "Integer[" + genRange(r, false) + "]"
	case 1:
		a := float64(genInt(r)%1000) / 4
		switch r.Intn(3) {
		case 0:
			return fmt.Sprintf("Float[%v]", floatText(a))
		case 1:
			return fmt.Sprintf("Float[%v, %v]", floatText(a), floatText(a+float64(r.Intn(9))/2))
		}
		return fmt.Sprintf("Float[%d, %d]", int64(a), int64(a)+int64(r.Intn(4)))
	case 2:
		return "Boolean[" + []string{"true", "false"}[r.Intn(2)] + "]"
	case 3:
		switch r.Intn(3) {
		case 0:
			return "String[" + sq(GenString(r)) + "]"
		case 1:
			return "String[Integer[" + genRange(r, true) + "]]"
		}
		return "String[" + genRange(r, true) + "]"
	case 4:
		n := 1 + r.Intn(3)
		xs := make([]string, n)
		for i := range xs {
			if r.Intn(2) == 0 {
				xs[i] = words[r.Intn(len(words))]
			} else {
				xs[i] = sq(GenString(r))
			}
		}
		if r.Intn(4) == 0 {
			xs = append(xs, []string{"true", "false"}[r.Intn(2)])
		}
		return "Enum[" + strings.Join(xs, ", ") + "]"
	case 5:
		n := 1 + r.Intn(2)
		xs := make([]string, n)
		for i := range xs {
			switch r.Intn(3) {
			case 0:
				xs[i] = sq("a.*" + words[r.Intn(len(words))])
			case 1:
				xs[i] = "Regexp[" + regexps[r.Intn(len(regexps))] + "]"
			default:
				xs[i] = regexps[r.Intn(len(regexps))]
			}
		}
		return "Pattern[" + strings.Join(xs, ", ") + "]"
	case 6:
		return "Regexp[" + regexps[r.Intn(len(regexps))] + "]"
	case 7:
		return "Collection[" + genRange(r, true) + "]"
	case 8, 9:
		switch r.Intn(3) {
		case 0:
			return "Array[" + sub() + "]"
		case 1:
			return "Array[" + genRange(r, true) + "]"
		}
		return "Array[" + sub() + ", " + genRange(r, true) + "]"
	case 10, 11:
		switch r.Intn(3) {
		case 0:
			return "Hash[" + sub() + ", " + sub() + "]"
		case 1:
			return "Hash[" + genRange(r, true) + "]"
		}
		return "Hash[" + sub() + ", " + sub() + ", " + genRange(r, true) + "]"
	case 12, 13:
		s := "Tuple[" + list(0, 3)
		if r.Intn(2) == 0 {
			if !strings.HasSuffix(s, "[") {
				s += ", "
			}
			s += genRange(r, true)
		}
		if strings.HasSuffix(s, "[") {
			return "Tuple"
		}
		return s + "]"
	case 14, 15:
		n := r.Intn(4)
		xs := make([]string, n)
		for i := range xs {
			xs[i] = genKey(r) + " => " + sub()
		}
		return "Struct[{" + strings.Join(xs, ", ") + "}]"
	case 16:
		return "Variant[" + list(1, 3) + "]"
	case 17:
		if r.Intn(4) == 0 {
			return "Optional[" + sq(GenString(r)) + "]"
		}
		return "Optional[" + sub() + "]"
	case 18:
		if r.Intn(4) == 0 {
			return "NotUndef[" + sq(GenString(r)) + "]"
		}
		return "NotUndef[" + sub() + "]"
	case 19:
		return "Type[" + sub() + "]"
	case 20:
		return "Sensitive[" + sub() + "]"
	case 21:
		return "Iterable[" + sub() + "]"
	case 22:
		return "Iterator[" + sub() + "]"
	case 23, 24:
		switch r.Intn(4) {
		case 0:
			return "Callable[[" + list(0, 2) + "], " + sub() + "]"
		case 1:
			return "Callable[" + list(0, 2) + "]"
		case 2:
			s := list(0, 2)
			if s != "" {
				s += ", "
			}
			return "Callable[" + s + genRange(r, true) + "]"
		}
		s := list(0, 2)
		if s != "" {
			s += ", "
		}
		return "Callable[" + s + "Callable[" + list(0, 1) + "]]"
	case 25:
		return "Runtime['go', " + sq(words[r.Intn(len(words))]) + "]"
	case 26:
		return "TypeReference[" + sq("My::"+strings.Title(words[r.Intn(len(words))])) + "]"
	case 27:
		if r.Intn(2) == 0 {
			return "Init[" + sub() + "]"
		}
		return "Init[" + sub() + ", " + GenValueText(r, 1) + "]"
	case 28:
		return "Timestamp['2000-01-01T00:00:00.000Z', '2010-06-01T12:30:00.000Z']"
	case 29:
		return "SemVer['>=1.0.0', '<3.0.0']"
	case 30:
		return "URI['http://example.com/" + words[r.Intn(len(words))] + "']"
	case 31:
		return "Timespan[{hours => 1}, {days => 2}]"
	case 32:
		return "Object[{attributes => {" + words[r.Intn(len(words))] + " => " + sub() + "}}]"
	}
	return "Like[" + sub() + ", 'a.b']"
}

func floatText(f float64) string {
	s := strconv.FormatFloat(f, 'g', -1, 64)
	if !strings.ContainsAny(s, ".e") {
		s += ".0"
	}
	return s
}

// GenValueText draws a literal value expression (text form, lexable by construction).
func GenValueText(r *rand.Rand, depth int) string {
	if depth <= 0 || r.Intn(3) == 0 {
		switch r.Intn(12) {
		case 0:
			return "undef"
		case 1:
			return "default"
		case 2:
			return "true"
		case 3:
			return "false"
		case 4, 5:
			return intText(r, genInt(r))
		case 6:
			return floatText(float64(genInt(r)%100000) / 8)
		case 7:
			return []string{"1e5", "1.5e-3", "2E+10", "0.0", "-0.0", "1e308", "4.9e-324", "123456789.123456789"}[r.Intn(8)]
		case 8:
			return sq(GenString(r))
		case 9:
			return "\"" + []string{"a", "\\n", "\\t\\r", "\\\\", "\\\"", "\\$x", "\\u{1F600}", "\\u{0}", "it's"}[r.Intn(9)] + "\""
		case 10:
			return regexps[r.Intn(len(regexps))]
		}
		return words[r.Intn(len(words))]
	}
	sub := func() string { return GenValueText(r, depth-1) }
	n := r.Intn(4)
	switch r.Intn(8) {
	case 0, 1:
		xs := make([]string, n)
		for i := range xs {
			xs[i] = sub()
		}
		return "[" + strings.Join(xs, ", ") + "]"
	case 2, 3:
		xs := make([]string, n)
		for i := range xs {
			xs[i] = sub() + " => " + sub()
		}
		return "{" + strings.Join(xs, ", ") + "}"
	case 4:
		xs := make([]string, n)
		for i := range xs {
			if r.Intn(2) == 0 {
				xs[i] = sub() + " => " + sub()
			} else {
				xs[i] = sub()
			}
		}
		return "[" + strings.Join(xs, ", ") + "]"
	case 5:
		xs := make([]string, n)
		for i := range xs {
			xs[i] = sub()
		}
		return []string{"Foo", "My::Thing", "Deferred", "Binary", "SemVer"}[r.Intn(5)] + "(" + strings.Join(xs, ", ") + ")"
	case 6:
		return GenTypeText(r, depth-1)
	}
	return "Foo{" + words[r.Intn(len(words))] + " => " + sub() + "}"
}

// ---- the modelled fragment of types (twin of lean/Pcore/Model/Types.lean) ---------------------------------------------

// FloatBoundTexts: bound texts of Float[lo, hi] in the lexer's float shapes, in ascending order of value (zeros of both
// signs, subnormal, around the %g switch to exponent form, the largest finite values)
var FloatBoundTexts = []string{"-1.7976931348623157e308", "-1e308", "-2.5e3", "-1.5", "-0.0", "0.0", "5e-324", "1e-7", "0.0001", "0.1", "0.30000000000000004", "1.5", "2.5E+3", "100000.0",
	"1000000.0", "123456789.25", "1e21", "1.0e+22", "1e308", "1.7976931348623157e308"}

// HeldTypes: one or more types per constructor of the fragment, as they are held by literal values
var HeldTypes = []string{"Any", "Integer", "Integer[1, 2]", "Integer[default, 5]", "Float[1.5, 2.5e3]", "Float[default, 0.1]", "String", "String[1, 10]", "Boolean[true]", "Enum['a', 'b']",
	"Enum['a', 'B', true]", "Regexp[/a\\/b/]", "Pattern[/a/, 'b+']", "Optional[String]", "Optional['x']", "NotUndef['y']", "Type[Integer[1, 2]]", "Sensitive[String]", "Iterable[Integer]",
	"Iterator[String]", "Variant[Integer, String, Undef]", "Array[String, 1, 3]", "Array[0, 0]", "Hash[String, Integer, 1, 5]", "Hash[0, 0]", "Collection[1, 2]", "Tuple[String, Integer, 1, 5]",
	"Tuple[String]", "Tuple[0, 0]", "Struct[{a => Integer, Optional[b] => String, 'c d' => Optional[Float], NotUndef[e] => Any}]", "Struct", "Callable[String, Integer, 1, 2]",
	"Callable[[String], Integer]", "Callable[0, 0, Callable[1, 1]]", "Callable[String, Optional[Callable]]", "Callable", "Runtime['ruby', 'x']", "Runtime['ruby', 'x', Regexp[/a/]]",
	"TypeReference['My::Thing']", "My::Thing", "Foo", "Data", "Default", "Array[Struct[{a => Callable[[], Undef]}], 0, 1]"}

var fragPlain = []string{"Any", "Unit", "Undef", "Default", "Scalar", "ScalarData", "Numeric", "Data", "RichData", "Binary", "Float", "String",
	"Callable", "Struct", "Timespan", "Timestamp", "SemVer", "SemVerRange", "URI", "Runtime", "Object", "Init", "TypeSet", "Tuple",
	"Integer", "Boolean", "Enum", "Regexp", "Pattern", "Variant", "Array", "Hash", "Collection", "Optional", "NotUndef", "Type", "Sensitive", "Iterable", "Iterator"}

var fragRegexps = []string{"/a/", "/^a.*$/", "/a\\/b/", "/[a-z]+/", "/\\d+/", "/a|b/", "/\\\\/", "//", "/\\Aab\\z/", "/ /", "/'/"}

func fragSize(r *rand.Rand) (int64, int64) {
	lo := int64(r.Intn(4))
	if r.Intn(6) == 0 {
		lo = BoundaryInts[r.Intn(len(BoundaryInts))]
	}
	if lo == math.MinInt64 {
		lo++
	}
	hi := lo + int64(r.Intn(5))
	if hi < lo || r.Intn(3) == 0 {
		hi = math.MaxInt64
	}
	return lo, hi
}

// fragSizeText renders a size constraint in one of the accepted surface forms ("" = none)
func fragSizeText(r *rand.Rand, allowTypeForm bool) string {
	lo, hi := fragSize(r)
	los, his := intText(r, lo), intText(r, hi)
	if lo < 0 {
		los = strconv.FormatInt(lo, 10)
	}
	switch r.Intn(6) {
	case 0:
		if hi == math.MaxInt64 {
			return los
		}
	case 1:
		if hi == math.MaxInt64 {
			return los + ", default"
		}
	case 2:
		if lo == 0 {
			return "default, " + his
		}
	case 3:
		if allowTypeForm {
			return "Integer[" + los + ", " + his + "]"
		}
	}
	return los + ", " + his
}

func fragString(r *rand.Rand) string {
	// a quoted string in the text: any content the simple quoting of the text generators can carry
	s := GenString(r)
	s = strings.Map(func(c rune) rune {
		if c == '\n' || c == 0 || c == '\ufffd' || c == '\r' || c == '\t' || c < 0x20 {
			return 'x'
		}
		return c
	}, s)
	return s
}

// GenFragType draws a type expression of the modelled fragment, valid by construction, in varied surface forms.
func GenFragType(r *rand.Rand, depth int) string {
	if depth <= 0 || r.Intn(4) == 0 {
		return fragPlain[r.Intn(len(fragPlain))]
	}
	sub := func() string { return GenFragType(r, depth-1) }
	switch r.Intn(20) {
	case 0, 1:
		lo, hi := fragSize(r)
		if r.Intn(4) == 0 {
			lo = -lo
			if hi < lo {
				hi = math.MaxInt64
			}
		}
		switch r.Intn(5) {
		case 0:
			return "Integer[" + intText(r, lo) + "]"
		case 1:
			return "Integer[default, " + intText(r, hi) + "]"
		case 2:
			return "Integer[" + strconv.FormatInt(lo, 10) + ", default]"
		case 3:
			return "Integer[default]"
		}
		return "Integer[" + strconv.FormatInt(lo, 10) + ", " + intText(r, hi) + "]"
	case 2:
		lo, hi := fragSize(r)
		if lo < 0 {
			lo, hi = 0, math.MaxInt64
		}
		switch r.Intn(3) {
		case 0:
			return "String[" + sq(fragString(r)) + "]"
		case 1:
			if lo > 0 && hi >= 2 {
				lo -= int64(r.Intn(3)) // a negative minimum is clamped to 0
			}
			return "String[Integer[" + strconv.FormatInt(lo, 10) + ", " + intText(r, hi) + "]]"
		}
		if hi == math.MaxInt64 || r.Intn(2) == 0 {
			return "String[" + intText(r, lo) + "]"
		}
		return "String[" + intText(r, lo) + ", " + intText(r, hi) + "]"
	case 3:
		return "Boolean[" + []string{"true", "false"}[r.Intn(2)] + "]"
	case 4, 5:
		n := 1 + r.Intn(3)
		xs := make([]string, n)
		for i := range xs {
			if r.Intn(2) == 0 {
				xs[i] = words[r.Intn(len(words))]
			} else {
				xs[i] = sq(fragString(r))
			}
		}
		flag := ""
		if r.Intn(3) == 0 {
			flag = []string{", true", ", false"}[r.Intn(2)]
			if r.Intn(3) == 0 {
				xs[r.Intn(len(xs))] = []string{"'\u00c9cole'", "'\u0130x'", "'\u01c5'", "'\u03a3\u03c3\u03c2'", "'\u212a'", "'Stra\u00dfe'", "'\U00010400'"}[r.Intn(7)]
			}
		}
		switch r.Intn(3) {
		case 0:
			return "Enum[[" + strings.Join(xs, ", ") + "]" + flag + "]"
		case 1:
			if flag == "" {
				return "Enum[[" + strings.Join(xs, ", ") + "]]"
			}
		}
		return "Enum[" + strings.Join(xs, ", ") + flag + "]"
	case 6:
		if r.Intn(3) == 0 {
			return "Regexp['a+b']"
		}
		return "Regexp[" + fragRegexps[r.Intn(len(fragRegexps))] + "]"
	case 7:
		n := 1 + r.Intn(3)
		xs := make([]string, n)
		for i := range xs {
			switch r.Intn(3) {
			case 0:
				xs[i] = "'a.*" + words[r.Intn(len(words))] + "'"
			case 1:
				xs[i] = "Regexp[" + fragRegexps[r.Intn(len(fragRegexps))] + "]"
			default:
				xs[i] = fragRegexps[r.Intn(len(fragRegexps))]
			}
		}
		if r.Intn(4) == 0 {
			return "Pattern[[" + strings.Join(xs, ", ") + "]]"
		}
		return "Pattern[" + strings.Join(xs, ", ") + "]"
	case 8, 9, 10:
		k := []string{"Optional", "NotUndef", "Type", "Sensitive", "Iterable", "Iterator"}[r.Intn(6)]
		if (k == "Optional" || k == "NotUndef") && r.Intn(3) == 0 {
			return k + "[" + sq(fragString(r)) + "]"
		}
		return k + "[" + sub() + "]"
	case 11, 12:
		n := 1 + r.Intn(3)
		xs := make([]string, n)
		for i := range xs {
			xs[i] = sub()
		}
		if r.Intn(4) == 0 {
			return "Variant[[" + strings.Join(xs, ", ") + "]]"
		}
		return "Variant[" + strings.Join(xs, ", ") + "]"
	case 13, 14, 15:
		switch r.Intn(5) {
		case 0:
			return "Array[" + sub() + "]"
		case 1:
			return "Array[" + fragSizeText(r, true) + "]"
		case 2:
			return "Array[" + []string{"0, 0", "Unit, 0, 0", "Any, 0, 0", "Any", "Any, 0, default", "String, 0, 0"}[r.Intn(6)] + "]"
		}
		return "Array[" + sub() + ", " + fragSizeText(r, true) + "]"
	case 16, 17, 18:
		switch r.Intn(5) {
		case 0:
			return "Hash[" + sub() + ", " + sub() + "]"
		case 1:
			lo, hi := fragSize(r)
			return "Hash[" + intText(r, lo) + ", " + intText(r, hi) + "]"
		case 2:
			return "Hash[" + []string{"0, 0", "Unit, Unit, 0, 0", "Any, Any", "Any, Any, 0, default", "default, default", "1, 2, 3", "1, 2, 3, 4", "String, String, 0, 0"}[r.Intn(8)] + "]"
		}
		return "Hash[" + sub() + ", " + sub() + ", " + fragSizeText(r, true) + "]"
	}
	switch r.Intn(15) {
	case 11, 12:
		return fragCallable(r, sub)
	case 13:
		switch r.Intn(5) {
		case 0:
			return "Runtime[" + sq([]string{"ruby", "go", "x y"}[r.Intn(3)]) + "]"
		case 1:
			return "Runtime['ruby', " + sq(fragKeyName0(r)) + "]"
		case 2:
			return "Runtime['ruby', " + sq(fragKeyName0(r)) + ", Regexp[" + fragRegexps[r.Intn(len(fragRegexps))] + "]]"
		case 3:
			return "Runtime['jvm', 'n', Regexp]"
		}
		return "Runtime"
	case 14:
		switch r.Intn(5) {
		case 0:
			return "TypeReference[" + sq(fragString(r)) + "]"
		case 1:
			return []string{"Foo", "My::Thing", "Catalogentry", "My::Other", "Foo::Bar"}[r.Intn(5)]
		case 2:
			return []string{"Foo", "My::Thing", "Typereference"}[r.Intn(3)] + "[" + sq(fragString(r)) + "]"
		case 3:
			return []string{"Notundef", "RegExp", "Richdata", "Scalardata", "Semver", "Semverrange", "SemverRange", "TimeSpan", "TimeStamp", "Typereference", "Typeset", "Uri"}[r.Intn(12)]
		}
		return "TypeReference"
	case 9, 10:
		i := r.Intn(len(FloatBoundTexts))
		j := i + r.Intn(len(FloatBoundTexts)-i)
		a, b := FloatBoundTexts[i], FloatBoundTexts[j]
		if r.Intn(3) == 0 {
			x := float64(r.Intn(4000)-2000) / 8
			a = floatText(x)
			b = floatText(x + float64(r.Intn(4000))/16)
		}
		switch r.Intn(6) {
		case 0:
			return "Float[" + a + "]"
		case 1:
			return "Float[default, " + b + "]"
		case 2:
			return "Float[" + a + ", default]"
		case 3:
			return []string{"Float[default]", "Float[default, default]", "Float[-1.7976931348623157e308, 1.7976931348623157e308]"}[r.Intn(3)]
		}
		return "Float[" + a + ", " + b + "]"
	case 6, 7, 8:
		return fragStruct(r, sub)
	case 0:
		return "Collection[default]"
	case 1, 2, 3:
		n := r.Intn(4)
		xs := make([]string, n)
		for i := range xs {
			xs[i] = sub()
		}
		lo, hi := fragSize(r)
		if lo < 0 {
			lo, hi = 0, math.MaxInt64
		}
		his := strconv.FormatInt(hi, 10)
		if hi == math.MaxInt64 && r.Intn(2) == 0 {
			his = "default"
		}
		switch r.Intn(6) {
		case 0:
			if n > 0 {
				return "Tuple[" + strings.Join(xs, ", ") + "]"
			}
		case 1:
			if n > 0 {
				return "Tuple[[" + strings.Join(xs, ", ") + "]]"
			}
		case 2:
			if n > 0 && int64(n) >= lo {
				return "Tuple[" + strings.Join(xs, ", ") + ", " + strconv.FormatInt(lo, 10) + "]"
			}
		case 3:
			if hi != math.MaxInt64 || int64(n) >= lo {
				return "Tuple[[" + strings.Join(xs, ", ") + "], Integer[" + strconv.FormatInt(lo, 10) + ", " + strconv.FormatInt(hi, 10) + "]]"
			}
		case 4:
			return "Tuple[" + []string{"0, 0", "0, default", "default", "5", "0, 1", "[]", "[], Integer[0, 0]", "Any, 0, 0", "Unit"}[r.Intn(9)] + "]"
		}
		return "Tuple[" + strings.Join(append(xs, strconv.FormatInt(lo, 10), his), ", ") + "]"
	}
	return "Collection[" + fragSizeText(r, true) + "]"
}

// fragKeyName: a non-empty member name, as a bareword or a quoted string of any content the text quoting can carry
func fragKeyName(r *rand.Rand) string {
	if r.Intn(2) == 0 {
		return words[r.Intn(len(words))]
	}
	s := fragString(r)
	if s == "" {
		s = "k"
	}
	return sq(s)
}

func fragKeyName0(r *rand.Rand) string {
	s := fragString(r)
	if s == "" {
		s = "n"
	}
	return s
}

// fragCallable draws a Callable in the forms that print invertibly: parameter types (no Unit, no leading Tuple outside
// the array form), an optional size, an optional block (Callable / Optional[Callable]), an optional return type
func fragCallable(r *rand.Rand, sub func() string) string {
	n := r.Intn(3)
	ps := []string{}
	for i := 0; i < n; i++ {
		t := sub()
		if t == "Unit" || strings.HasPrefix(t, "Tuple") || strings.HasPrefix(t, "Callable") || strings.HasPrefix(t, "Optional[Callable") || t == "Optional" {
			t = "String"
		}
		ps = append(ps, t)
	}
	switch r.Intn(4) {
	case 0: // size
		lo := int64(r.Intn(3))
		switch r.Intn(3) {
		case 0:
			ps = append(ps, strconv.FormatInt(lo, 10), strconv.FormatInt(lo+int64(r.Intn(3)), 10))
		case 1:
			ps = append(ps, strconv.FormatInt(lo, 10), "default")
		default:
			if n > 0 && lo <= int64(n) {
				ps = append(ps, strconv.FormatInt(lo, 10)) // one number: the minimum, the maximum is the number of types
			}
		}
	}
	switch r.Intn(4) {
	case 0:
		ps = append(ps, "Callable")
	case 1:
		ps = append(ps, "Optional[Callable["+strings.Join([]string{"String", "0, 0", "[Integer], String"}[r.Intn(3):][:1], "")+"]]")
	}
	body := strings.Join(ps, ", ")
	if r.Intn(3) == 0 {
		return "Callable[[" + body + "], " + sub() + "]"
	}
	if body == "" {
		return "Callable"
	}
	return "Callable[" + body + "]"
}

// CallableLeaves: the argument leaves the creator of Callable distinguishes
var CallableLeaves = []string{"String", "1", "0", "default", "Callable", "Optional[Callable]", "Tuple[String]", "Unit", "Integer[1, 2]"}

// fragStruct draws a Struct type expression: every key form the creator reads (bare name, quoted name, Optional[n],
// NotUndef[n], String[n]) over value types that accept and that refuse undef, in the surface forms of the parameter list
func fragStruct(r *rand.Rand, sub func() string) string {
	n := r.Intn(4)
	xs := make([]string, n)
	for i := range xs {
		k := fragKeyName(r)
		if i > 0 && r.Intn(6) == 0 {
			k = strings.SplitN(xs[i-1], " => ", 2)[0] // a duplicate key (kept by the creator)
			if strings.ContainsAny(k, "[") {
				k = fragKeyName(r)
			}
		}
		switch r.Intn(6) {
		case 0:
			k = "Optional[" + k + "]"
		case 1:
			k = "NotUndef[" + k + "]"
		case 2:
			k = "String[" + k + "]"
		}
		v := sub()
		switch r.Intn(8) {
		case 0:
			v = "Optional[" + v + "]"
		case 1:
			v = "Variant[" + v + ", Undef]"
		case 2:
			v = []string{"Any", "Undef", "Data", "RichData", "Init", "Unit", "Optional", "NotUndef", "Variant", "Default", "Struct"}[r.Intn(11)]
		case 3:
			v = "NotUndef[" + v + "]"
		}
		xs[i] = k + " => " + v
	}
	body := strings.Join(xs, ", ")
	switch r.Intn(8) {
	case 0:
		return "Struct[[{" + body + "}]]"
	case 1:
		if n > 0 {
			return "Struct[" + body + "]" // `x => y` directly inside the brackets is a hash
		}
	case 2:
		if n == 0 {
			return "Struct[[]]"
		}
	}
	return "Struct[{" + body + "}]"
}

// StructKeyForms / StructValueTypes: the exhaustive small universe of Struct members (key form x value type; the value
// types cover every answer of "accepts undef" the fragment can give)
var StructKeyForms = []string{"a", "'a'", "\"a\"", "Optional[a]", "Optional['a']", "NotUndef[a]", "NotUndef['a']", "String[a]", "String['a']", "'x y'", "Optional['it\\'s']", "NotUndef['\\\\']"}

var StructValueTypes = []string{"Integer", "Any", "Unit", "Undef", "Default", "Data", "RichData", "Init", "Scalar", "String", "Optional", "NotUndef", "Variant", "Struct", "Type", "Iterator",
	"Optional[Integer]", "NotUndef[Any]", "NotUndef[Undef]", "NotUndef[Optional[Integer]]", "NotUndef[Unit]", "Variant[Integer, Undef]", "Variant[Integer, String]",
	"Variant[Integer, Variant[Undef, String]]", "Variant[Unit, Integer]", "Variant[Data, Integer]", "Variant[Optional[Integer], String]", "Variant[Undef]", "Optional['x']", "NotUndef['x']",
	"Type[Undef]", "Sensitive[Undef]", "Iterable[Undef]", "Iterator[Undef]", "Array[Undef]", "Hash[Undef, Undef]", "Tuple[Undef]", "Tuple[Undef, 0, 1]", "Collection[0, 0]", "Enum[a]", "Integer[0, 1]",
	"String[1]", "Boolean[true]", "Regexp[/a/]", "Pattern[/a/]", "Array[0, 0]", "Hash[0, 0]", "Struct[{a => Undef}]", "Struct[{Optional[a] => Undef}]", "Struct[{a => Optional[Struct]}]",
	"Optional[Unit]", "Optional[NotUndef]", "Optional[Struct[{b => Any}]]"}

