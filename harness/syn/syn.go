// Package syn holds what the two syntax properties (C05 printing/parsing inverse, C06 parser totality) share:
// running the real parser under a deadline, classifying its outcome into the small canonical enum, the
// encoder from a parse result to the model's expression syntax, the "location lies within the input"
// predicate and the oracles the Lean model takes as parameters (regexp.Compile).
//
// Expression syntax (twin of lean/Driver/Syntax.lean):
//
//	u | d | (b t|f) | (i N) | (f BITS) | (s xHEX) | (r xHEX) | (a e*) | (h (k v)*) | (e k v)
//	(t xNAME e*)      DeferredType: a type name, bare (no e) or with parameters
//	(c xNAME|? e*)    Deferred call  Name(args)  → ('new', Name, args…)  resp. Deferred(name, args…); `?` = not a plain word
//	(n KIND xNAME)    result of `type X = …` (KIND alias|object|typeset|other)
package syn

import (
	"fmt"
	"math"
	"os"
	"path/filepath"
	"regexp"
	"runtime"
	"strconv"
	"strings"
	"sync"
	"sync/atomic"
	"time"
	"unicode/utf8"

	"verif/harness/sx"

	"github.com/lyraproj/issue/issue"
	"github.com/lyraproj/pcore/px"
	"github.com/lyraproj/pcore/types"
)

// Outcome of one call into the parser / resolver.
type Outcome struct {
	Kind string // value | parse-error | reported | fault | timeout | error | other
	Val  px.Value
	Line int
	Col  int
	Code string
	Msg  string
}

// Canon is the canonical one-line rendering that is compared with the model.
func (o Outcome) Canon() string {
	switch o.Kind {
	case "value":
		return "value " + Enc(o.Val)
	case "parse-error":
		return fmt.Sprintf("parse-error %d %d", o.Line, o.Col)
	case "reported":
		return "reported " + o.Code
	}
	return o.Kind
}

func isFaultText(s string) bool {
	return strings.Contains(s, "runtime error:") || strings.Contains(s, "interface conversion")
}

// Classify maps a recovered panic value to an Outcome.  A Go runtime fault is a fault whether it arrives raw or
// wrapped into a reported PARSE_ERROR (the property says "raw or wrapped").
func Classify(e interface{}) Outcome {
	switch e := e.(type) {
	case issue.Reported:
		msg := e.Error()
		if isFaultText(msg) {
			return Outcome{Kind: "fault", Msg: msg}
		}
		if string(e.Code()) == types.ParseError {
			l, c := 0, 0
			if loc := e.Location(); loc != nil {
				l, c = loc.Line(), loc.Pos()
			}
			return Outcome{Kind: "parse-error", Line: l, Col: c, Msg: msg}
		}
		return Outcome{Kind: "reported", Code: string(e.Code()), Msg: msg}
	case error:
		if isFaultText(e.Error()) {
			return Outcome{Kind: "fault", Msg: e.Error()}
		}
		return Outcome{Kind: "error", Msg: e.Error()}
	default:
		return Outcome{Kind: "other", Msg: fmt.Sprint(e)}
	}
}

// Safely runs f and classifies a panic.
func Safely(f func() px.Value) (o Outcome) {
	defer func() {
		if e := recover(); e != nil {
			o = Classify(e)
		}
	}()
	return Outcome{Kind: "value", Val: f()}
}

// ParseDeadline is the per-call deadline (DESIGN §4 C06).
var ParseDeadline = 2 * time.Second

// A call into pcore that does not return cannot be stopped: its goroutine keeps a core busy (the original lexer on
// `1e5`) or, worse, keeps allocating (the original PuppetQuote on U+FFFD appends to its buffer for ever).  Three
// measures keep a check run bounded when that happens — on every shard and every re-run of the same check:
//   * a process that saw one call not return answers `skipped` (n/a) for every later op;
//   * a watchdog ends the process (exit 4) when its heap passes HeapLimit — the check driver then re-runs the
//     culprit op alone and reports it as `crash`;
//   * every such event is noted in a file shared by all harness processes of this check run (keyed by the parent
//     pid); once MaxEvents are noted, every process answers `skipped` for everything: the violations are
//     established by then and the remaining ops could only repeat them.
const MaxEvents = 12
const HeapLimit = 2 << 30

var localTimeouts int32
var watchdog sync.Once

func budgetFile() string {
	return filepath.Join(os.TempDir(), fmt.Sprintf("pxh-events-%d", os.Getppid()))
}

func noteEvent() {
	if f, err := os.OpenFile(budgetFile(), os.O_APPEND|os.O_CREATE|os.O_WRONLY, 0644); err == nil {
		_, _ = f.Write([]byte{'x'})
		_ = f.Close()
	}
}

func events() int64 {
	st, err := os.Stat(budgetFile())
	if err != nil {
		return 0
	}
	if time.Since(st.ModTime()) > 30*time.Minute {
		_ = os.Remove(budgetFile()) // left over from an earlier run whose pid was reused
		return 0
	}
	return st.Size()
}

func startWatchdog() {
	watchdog.Do(func() {
		go func() {
			var m runtime.MemStats
			for {
				time.Sleep(20 * time.Millisecond)
				runtime.ReadMemStats(&m)
				if m.HeapAlloc > HeapLimit {
					noteEvent()
					fmt.Fprintln(os.Stderr, "pxh: heap limit passed (a call into pcore allocates without bound); exiting")
					os.Exit(4)
				}
			}
		}()
	})
}

// exhausted: should this process stop calling into pcore?
func exhausted() bool {
	return atomic.LoadInt32(&localTimeouts) > 0 || events() >= MaxEvents
}

func noteTimeout() {
	atomic.AddInt32(&localTimeouts, 1)
	noteEvent()
}

// Parse runs types.Parse(text) in its own goroutine with a deadline.  A parse that does not return is reported as
// `timeout` (the goroutine is abandoned).
func Parse(text string) Outcome {
	startWatchdog()
	if exhausted() {
		return Outcome{Kind: "skipped"}
	}
	ch := make(chan Outcome, 1)
	go func() {
		ch <- Safely(func() px.Value { return types.Parse(text) })
	}()
	select {
	case o := <-ch:
		return o
	case <-time.After(ParseDeadline):
		noteTimeout()
		return Outcome{Kind: "timeout"}
	}
}

// Guarded runs f on its own goroutine (with c as that goroutine's current context) under the deadline.  ok = false:
// f did not return (`timeout`) or was not started (`skipped`).
func Guarded(c px.Context, f func()) (kind string, ok bool) {
	startWatchdog()
	if exhausted() {
		return "skipped", false
	}
	done := make(chan interface{}, 1)
	go func() {
		defer func() { done <- recover() }()
		px.DoWithContext(c, func(px.Context) { f() })
	}()
	select {
	case e := <-done:
		if e != nil {
			panic(e)
		}
		return "", true
	case <-time.After(ParseDeadline):
		noteTimeout()
		return "timeout", false
	}
}

// Clean makes a detail text printable on one valid-UTF-8 line.
func Clean(s string) string {
	return strings.NewReplacer("\n", "\\n", "\r", "\\r").Replace(strings.ToValidUTF8(s, "\uFFFD"))
}

// InInput: the property's "line and column lie within the input".  Lines are 1-based; a column is accepted from 0
// (the reader's count of characters consumed on the line) up to one past the end of that line.  NUL ends the input
// for the lexer, but the text after it is still "the input" as far as positions are concerned.
func InInput(text string, line, col int) bool {
	lines := strings.Split(text, "\n")
	if line < 1 || line > len(lines) {
		return false
	}
	w := utf8.RuneCountInString(lines[line-1])
	if !utf8.ValidString(lines[line-1]) {
		w = len(lines[line-1])
	}
	return col >= 0 && col <= w+2
}

// ---- encoder ---------------------------------------------------------------------------------------------

func hexs(s string) string { return sx.Str(s).Atom }

// Enc renders a parse result in the model's expression syntax.
func Enc(v px.Value) string {
	var sb strings.Builder
	enc(&sb, v)
	return sb.String()
}

func enc(sb *strings.Builder, v px.Value) {
	switch v := v.(type) {
	case nil:
		sb.WriteString("nil")
	case *types.UndefValue:
		sb.WriteString("u")
	case *types.DefaultValue:
		sb.WriteString("d")
	case px.Boolean:
		sb.WriteString("(b " + sx.B(v.Bool()) + ")")
	case px.Integer:
		sb.WriteString("(i " + strconv.FormatInt(v.Int(), 10) + ")")
	case px.Float:
		sb.WriteString("(f " + strconv.FormatUint(math.Float64bits(v.Float()), 10) + ")")
	case px.StringValue:
		sb.WriteString("(s " + hexs(v.String()) + ")")
	case *types.Regexp:
		sb.WriteString("(r " + hexs(v.PatternString()) + ")")
	case *types.HashEntry:
		sb.WriteString("(e ")
		enc(sb, v.Key())
		sb.WriteByte(' ')
		enc(sb, v.Value())
		sb.WriteByte(')')
	case *types.Hash:
		sb.WriteString("(h")
		v.EachPair(func(k, e px.Value) {
			sb.WriteString(" (")
			enc(sb, k)
			sb.WriteByte(' ')
			enc(sb, e)
			sb.WriteByte(')')
		})
		sb.WriteByte(')')
	case *types.Array:
		sb.WriteString("(a")
		v.Each(func(e px.Value) {
			sb.WriteByte(' ')
			enc(sb, e)
		})
		sb.WriteByte(')')
	case *types.DeferredType:
		sb.WriteString("(t " + hexs(v.Name()))
		for _, p := range v.Parameters() {
			sb.WriteByte(' ')
			enc(sb, p)
		}
		sb.WriteByte(')')
	case types.Deferred:
		sb.WriteString("(c " + showName(v.Name()))
		v.Arguments().Each(func(e px.Value) {
			sb.WriteByte(' ')
			enc(sb, e)
		})
		sb.WriteByte(')')
	case *types.TypeAliasType:
		sb.WriteString("(n alias " + hexs(v.Name()) + ")")
	case px.TypeSet:
		sb.WriteString("(n typeset " + hexs(v.Name()) + ")")
	case px.ObjectType:
		sb.WriteString("(n object " + hexs(v.Name()) + ")")
	default:
		sb.WriteString("(n other " + hexs(fmt.Sprintf("%T", v)) + ")")
	}
}

// showName: the name of a Deferred call is compared only when it is a plain word.  `Deferred(x, …)` takes its name
// from x.String(), which for anything but a string / boolean / undef / default goes through value formatting that
// the model does not have; such names never look like a word, and both sides print `?` for them.
func showName(n string) string {
	if n == "" {
		return "?"
	}
	for i, c := range n {
		word := c == '_' || c == '$' || c == ':' || (c >= '0' && c <= '9') || (c >= 'A' && c <= 'Z') || (c >= 'a' && c <= 'z')
		if !word || (i == 0 && (c == ':' || (c >= '0' && c <= '9'))) {
			return "?"
		}
	}
	return hexs(n)
}

// ---- which expressions the resolver model answers for (twin of lean/Pcore/Model/Resolve.lean Expr.outsideB) ------------------

// modelled kinds, plain names, names without a positional creator, core names outside the model, second spellings and the
// names no harness context defines: twins of allKinds / plainNames / notParamNames / coreOther / spellings (Model/Types.lean,
// Model/Resolve.lean) and unknownNames (Driver/Syntax.lean)
var kindNames = set("Integer", "Float", "String", "Boolean", "Enum", "Regexp", "Pattern", "Variant", "Array", "Hash", "Collection", "Tuple", "Struct", "Callable", "Runtime",
	"TypeReference", "Optional", "NotUndef", "Type", "Sensitive", "Iterable", "Iterator")
var plainNames = set("Any", "Unit", "Undef", "Default", "Scalar", "ScalarData", "Numeric", "Data", "RichData", "Binary", "Timespan", "Timestamp", "SemVer", "SemVerRange", "URI", "Object",
	"Init", "TypeSet")
var notParamNames = set("Any", "Unit", "Undef", "Default", "Scalar", "ScalarData", "Numeric", "Data", "RichData", "Binary")
var coreOther = set("Annotation", "Like", "TypeAlias")
var spellings = map[string]string{"Notundef": "NotUndef", "RegExp": "Regexp", "Richdata": "RichData", "Scalardata": "ScalarData", "Semver": "SemVer", "Semverrange": "SemVerRange",
	"SemverRange": "SemVerRange", "TimeSpan": "Timespan", "TimeStamp": "Timestamp", "Typealias": "TypeAlias", "Typereference": "TypeReference", "Typeset": "TypeSet", "Uri": "URI"}

// UnknownNames: type names that no context of the harness defines (they resolve to a TypeReference)
var UnknownNames = set("Foo", "Bar", "My::Thing", "My::Other", "Catalogentry", "Foo::Bar")

func set(xs ...string) map[string]bool {
	m := map[string]bool{}
	for _, x := range xs {
		m[x] = true
	}
	return m
}

func canonName(n string) string {
	if c, ok := spellings[n]; ok {
		return c
	}
	return n
}

func nameModelled(n string, hasParams bool) bool {
	c := canonName(n)
	if kindNames[c] {
		return true
	}
	if plainNames[c] {
		return !hasParams || notParamNames[c]
	}
	return !coreOther[c] && UnknownNames[n]
}

// Modelled: does the resolver model answer for this parse result (nothing in it lies outside the model)?
func Modelled(v px.Value) bool {
	switch v := v.(type) {
	case *types.DeferredType:
		ps := v.Parameters()
		if !nameModelled(v.Name(), ps != nil) {
			return false
		}
		for _, p := range ps {
			if !Modelled(p) {
				return false
			}
		}
		return true
	case types.Deferred:
		return false
	case *types.HashEntry:
		return Modelled(v.Key()) && Modelled(v.Value())
	case *types.Hash:
		r := true
		v.EachPair(func(k, e px.Value) { r = r && Modelled(k) && Modelled(e) })
		return r
	case *types.Array:
		r := true
		v.Each(func(e px.Value) { r = r && Modelled(e) })
		return r
	case *types.UndefValue, *types.DefaultValue, px.Boolean, px.Integer, px.Float, px.StringValue, *types.Regexp:
		return true
	}
	return false // the result of `type X = …` (alias, object, type set) and anything else
}

// ProgramFormat is the property's "program format": %p for every value, no delimiter flag (NOT types.Program).
func ProgramFormat() px.FormatContext {
	return px.NewFormatContext(types.DefaultAnyType(), px.NewFormat("%p"), types.DefaultIndentation)
}

// FloatOracle renders the float-text oracle of a type text: ((BITS xTEXT)…) for every float literal in it (the bounds of
// Float types can only come from float literals: an Integer bound is refused); "" when there is none.  The literals are
// collected from the PARSED expression, not from the resolved type: Accept() of a type that holds a default Init dereferences
// nil and would stop the walk early.
func FloatOracle(text string) string {
	if !strings.Contains(text, "Float") {
		return ""
	}
	p := Parse(text)
	if p.Kind != "value" {
		return ""
	}
	seen := map[uint64]bool{}
	out := []string{}
	var walk func(v px.Value, depth int)
	walk = func(v px.Value, depth int) {
		if depth > 200 {
			return
		}
		switch x := v.(type) {
		case px.Float:
			if b := math.Float64bits(x.Float()); !seen[b] {
				seen[b] = true
				out = append(out, "("+strconv.FormatUint(b, 10)+" "+hexs(px.ToString2(x, ProgramFormat()))+")")
			}
		case *types.DeferredType:
			for _, e := range x.Parameters() {
				walk(e, depth+1)
			}
		case types.Deferred:
			x.Arguments().Each(func(e px.Value) { walk(e, depth+1) })
		case *types.HashEntry:
			walk(x.Key(), depth+1)
			walk(x.Value(), depth+1)
		case *types.Hash:
			x.EachPair(func(k, e px.Value) { walk(k, depth+1); walk(e, depth+1) })
		case *types.Array:
			x.Each(func(e px.Value) { walk(e, depth+1) })
		}
	}
	_ = Safely(func() px.Value { walk(p.Val, 0); return px.Undef })
	if len(out) == 0 {
		return ""
	}
	return " (" + strings.Join(out, " ") + ")"
}

// ---- oracles -----------------------------------------------------------------------------------------------

// BadRegexps lists (unescaped, de-duplicated, in order of first occurrence) every regexp body and every string body
// that a lexer starting at some '/' or quote of text would produce and that regexp.Compile rejects.  The model takes
// "does this source compile" as a parameter (Go's regexp syntax is not modelled); this list is that parameter for
// one op line.  It over-approximates the set of literals the real lexer sees (it scans from every delimiter), so a
// literal the lexer sees is never missing; a wrong scan shows up as a model/implementation disagreement, never
// as a silent pass.
func BadRegexps(text string) []string {
	var out []string
	seen := map[string]bool{}
	add := func(s string) {
		if !seen[s] {
			seen[s] = true
			if _, err := regexp.Compile(s); err != nil {
				out = append(out, s)
			}
		}
	}
	rs := []rune{}
	for i := 0; i < len(text); {
		r, n := utf8.DecodeRuneInString(text[i:])
		if r == utf8.RuneError {
			break // the reader never gets past an undecodable byte (or U+FFFD)
		}
		rs = append(rs, r)
		i += n
	}
	for i, r := range rs {
		switch r {
		case '/':
			if b, ok := scanRegexp(rs[i+1:]); ok {
				add(b)
			}
		case '\'', '"':
			if b, ok := scanString(rs[i+1:], r); ok {
				add(b)
			}
		}
	}
	// bare words become strings too (Pattern[abc] is legal), but a word never fails to compile
	return out
}

func scanRegexp(rs []rune) (string, bool) {
	var sb strings.Builder
	for i := 0; i < len(rs); i++ {
		switch r := rs[i]; r {
		case '/':
			return sb.String(), true
		case 0, '\n':
			return "", false
		case '\\':
			i++
			if i >= len(rs) || rs[i] == 0 {
				return "", false
			}
			if rs[i] != '/' {
				sb.WriteByte('\\')
			}
			sb.WriteRune(rs[i])
		default:
			sb.WriteRune(r)
		}
	}
	return "", false
}

func scanString(rs []rune, end rune) (string, bool) {
	var sb strings.Builder
	for i := 0; i < len(rs); i++ {
		r := rs[i]
		if r == end {
			return sb.String(), true
		}
		switch r {
		case 0, '\n':
			return "", false
		case '\\':
			i++
			if i >= len(rs) {
				return "", false
			}
			switch e := rs[i]; e {
			case 'n':
				sb.WriteByte('\n')
			case 'r':
				sb.WriteByte('\r')
			case 't':
				sb.WriteByte('\t')
			case '\\', '$':
				sb.WriteRune(e)
			case 'u':
				// \u{X}
				j := i + 1
				if j >= len(rs) || rs[j] != '{' {
					return "", false
				}
				v, n := rune(0), 0
				for j++; j < len(rs) && rs[j] != '}'; j++ {
					d := strings.IndexRune("0123456789abcdef", lower(rs[j]))
					if d < 0 || n >= 6 {
						return "", false
					}
					v = v<<4 | rune(d)
					n++
				}
				if j >= len(rs) || n == 0 {
					return "", false
				}
				sb.WriteRune(v)
				i = j
			default:
				if e != end {
					return "", false
				}
				sb.WriteRune(e)
			}
		default:
			sb.WriteRune(r)
		}
	}
	return "", false
}

func lower(r rune) rune {
	if r >= 'A' && r <= 'Z' {
		return r + 32
	}
	return r
}

// OracleSexp renders the oracle list for an op line: a list of hex strings.
func OracleSexp(text string) string {
	xs := []sx.Sexp{}
	for _, b := range BadRegexps(text) {
		xs = append(xs, sx.Str(b))
	}
	return sx.L(xs...).String()
}
