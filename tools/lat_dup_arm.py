#!/usr/bin/env python3
"""dup_arm.py FILE LINE [from=tspan] [to=tstamp]: in the `cases/match … with` block that starts at/after LINE, duplicate the arm `| from …` as `| to …`"""
import sys,re
f=sys.argv[1]; line=int(sys.argv[2]); frm=sys.argv[3] if len(sys.argv)>3 else 'tspan'; to=sys.argv[4] if len(sys.argv)>4 else 'tstamp'
src=open(f).read().split('\n')
# find the first arm line `| frm` after `line`
i=line-1
pat=re.compile(r'^(\s*)\| (\.?)'+frm+r'\b')
while i<len(src) and not pat.match(src[i]): i+=1
if i>=len(src): sys.exit('no arm found')
ind=len(pat.match(src[i]).group(1))
j=i+1
while j<len(src):
    l=src[j]
    if l.strip()=='' : j+=1; continue
    cur=len(l)-len(l.lstrip())
    if cur<ind or (cur==ind and l.lstrip().startswith('|')) or (cur<=ind and not l.lstrip().startswith('|') and cur<=ind): break
    j+=1
# trim trailing blank lines
k=j
while k>i+1 and src[k-1].strip()=='': k-=1
arm=[l.replace(frm,to) for l in src[i:k]]
src[k:k]=arm
open(f,'w').write('\n'.join(src))
print('duplicated lines %d-%d of %s'%(i+1,k,f))
