// mutgen lists mutation sites of one Go source file as JSON lines {file,func,line,start,end,repl,kind,orig}.
// Support tooling for tools/mutsweep (measures which seeded operator mutations the checks detect); never part of a check.
package main

import (
	"encoding/json"
	"fmt"
	"go/ast"
	"go/parser"
	"go/token"
	"os"
)

type site struct {
	File  string `json:"file"`
	Func  string `json:"func"`
	Line  int    `json:"line"`
	Start int    `json:"start"`
	End   int    `json:"end"`
	Repl  string `json:"repl"`
	Kind  string `json:"kind"`
	Orig  string `json:"orig"`
}

var swap = map[token.Token]string{
	token.LSS: "<=", token.LEQ: "<", token.GTR: ">=", token.GEQ: ">", token.EQL: "!=", token.NEQ: "==",
	token.LAND: "||", token.LOR: "&&", token.ADD: "-", token.SUB: "+",
}

func main() {
	path := os.Args[1]
	rel := os.Args[2]
	src, err := os.ReadFile(path)
	if err != nil {
		panic(err)
	}
	fset := token.NewFileSet()
	f, err := parser.ParseFile(fset, path, src, 0)
	if err != nil {
		panic(err)
	}
	enc := json.NewEncoder(os.Stdout)
	off := func(p token.Pos) int { return fset.Position(p).Offset }
	emit := func(fn string, kind string, s, e token.Pos, repl string) {
		_ = enc.Encode(site{rel, fn, fset.Position(s).Line, off(s), off(e), repl, kind, string(src[off(s):off(e)])})
	}
	for _, d := range f.Decls {
		fd, ok := d.(*ast.FuncDecl)
		if !ok || fd.Body == nil {
			continue
		}
		name := fd.Name.Name
		if fd.Recv != nil && len(fd.Recv.List) == 1 {
			t := fd.Recv.List[0].Type
			if st, ok := t.(*ast.StarExpr); ok {
				t = st.X
			}
			if id, ok := t.(*ast.Ident); ok {
				name = id.Name + "." + name
			}
		}
		ast.Inspect(fd.Body, func(n ast.Node) bool {
			switch n := n.(type) {
			case *ast.BinaryExpr:
				if r, ok := swap[n.Op]; ok {
					emit(name, "binop", n.OpPos, n.OpPos+token.Pos(len(n.Op.String())), r)
				}
			case *ast.IfStmt:
				emit(name, "negcond", n.Cond.Pos(), n.Cond.End(), "!("+string(src[off(n.Cond.Pos()):off(n.Cond.End())])+")")
			case *ast.ReturnStmt:
				if len(n.Results) == 1 {
					if id, ok := n.Results[0].(*ast.Ident); ok && (id.Name == "true" || id.Name == "false") {
						r := "true"
						if id.Name == "true" {
							r = "false"
						}
						emit(name, "retbool", id.Pos(), id.End(), r)
					}
				}
			case *ast.BasicLit:
				if n.Kind == token.INT && (n.Value == "0" || n.Value == "1" || n.Value == "2") {
					emit(name, "intlit", n.Pos(), n.End(), fmt.Sprint(map[string]int{"0": 1, "1": 0, "2": 1}[n.Value]))
				}
			case *ast.ExprStmt:
				emit(name, "delstmt", n.Pos(), n.End(), "")
			case *ast.DeferStmt:
				emit(name, "delstmt", n.Pos(), n.End(), "")
			case *ast.IncDecStmt:
				emit(name, "delstmt", n.Pos(), n.End(), "")
			case *ast.AssignStmt:
				if n.Tok != token.DEFINE {
					emit(name, "delstmt", n.Pos(), n.End(), "")
				}
			case *ast.BranchStmt:
				if n.Tok == token.BREAK || n.Tok == token.CONTINUE {
					emit(name, "delstmt", n.Pos(), n.End(), "")
				}
			case *ast.CaseClause:
				// drop the first alternative of a multi-type / multi-value case
				if len(n.List) > 1 {
					emit(name, "dropcase", n.List[0].Pos(), n.List[1].Pos(), "")
				}
			}
			return true
		})
	}
}
