#!/usr/bin/env python3
"""lat_dup_thm.py FILE NAME from to: duplicate the theorem NAME (up to the next blank line that is followed by a top-level
   declaration / doc comment / end) with every `from` replaced by `to` — support tooling, see notes/C01-C04-lattice-b14.md"""
import sys,re
f,name,frm,to=sys.argv[1:5]
src=open(f).read().split('\n')
i=next(k for k,l in enumerate(src) if re.match(r'theorem '+re.escape(name)+r'\b',l))
j=i+1
while j<len(src):
    if src[j].strip()=='' and (j+1>=len(src) or re.match(r'(theorem|def|end|/--|/-!|structure|inductive|namespace|section|variable|set_option|@\[)',src[j+1])): break
    j+=1
blk=[l.replace(frm,to) for l in src[i:j]]
src[j:j]=['']+blk
open(f,'w').write('\n'.join(src))
print('duplicated %s (%d lines) in %s'%(name,j-i,f))
