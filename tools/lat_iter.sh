#!/bin/sh
# tools/lat_iter.sh <private-lean-dir> <from> <to> <lake targets…> — support tooling for adding a constructor to the lattice model in a
# PRIVATE copy of lean/ (notes/C01-C04-lattice-b14.md, recipe): build; for every "Alternative `<to>` has not been provided" duplicate
# the arm of the twin constructor <from> (tools/lat_dup_arm.py); repeat until the build passes or only other errors remain.
dir=$1; from=$2; to=$3; shift 3
here=$(cd "$(dirname "$0")" && pwd)
cd "$dir" || exit 2
for round in 1 2 3 4 5 6 7 8 9 10 11 12 13 14 15 16 17 18 19 20; do
  lake build "$@" > /tmp/latiter.log 2>&1
  if ! grep -q '^error' /tmp/latiter.log; then echo "BUILD OK (round $round)"; exit 0; fi
  grep "^error: .*Alternative \`$to\` has not been provided" /tmp/latiter.log | sed 's/^error: //' | awk -F: '{print $1" "$2}' | sort -k1,1 -k2,2nr > /tmp/latiter.alts
  other=$(grep '^error' /tmp/latiter.log | grep -v "Alternative \`$to\`" | grep -v 'Lean exited\|build failed' | head -20)
  if [ -s /tmp/latiter.alts ]; then
    while read f l; do python3 "$here/lat_dup_arm.py" "$f" "$l" "$from" "$to"; done < /tmp/latiter.alts
  fi
  if [ -n "$other" ]; then echo "OTHER ERRORS:"; echo "$other"; fi
  [ -s /tmp/latiter.alts ] || exit 1
done
