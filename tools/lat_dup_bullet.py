#!/usr/bin/env python3
"""lat_dup_bullet.py FILE LINE: after the tactic at LINE (a `cases t <;> …` whose goals are closed by positional bullets) duplicate the LAST
   bullet of the bullet block that follows — for a new constructor declared after the last one that needs a bullet (support tooling)"""
import sys
f=sys.argv[1]; line=int(sys.argv[2])
src=open(f).read().split('\n')
i=line-1
# skip continuation lines of the cases tactic until the first bullet
j=i+1
while j<len(src) and not src[j].lstrip().startswith('·'): j+=1
ind=len(src[j])-len(src[j].lstrip())
# walk the bullet block
k=j; last=j
while k<len(src):
    l=src[k]
    if l.strip()=='' : break
    cur=len(l)-len(l.lstrip())
    if cur<ind: break
    if cur==ind:
        if l.lstrip().startswith('·'): last=k
        else: break
    k+=1
blk=src[last:k]
src[k:k]=blk
open(f,'w').write('\n'.join(src))
print('duplicated bullet at lines %d-%d of %s'%(last+1,k,f))
